#!/bin/bash
# tools_selftest.sh [id ...] : sensitivity self-test. Runs every seeded change (seeded/<id>/patch.diff) and every own change
# (mutants/*.diff) through the quick check of its property on a scratch copy of /repo and reports caught / MISSED / N-A.
cd /verif
ids=("$@")
if [ ${#ids[@]} -eq 0 ]; then ids=($(ls seeded)); for m in mutants/*.diff; do ids+=("$m"); done; fi
for id in "${ids[@]}"; do
  if [ -f "$id" ]; then patch=$id; prop=$(basename $id | cut -c1-3)
  else patch=seeded/$id/patch.diff; prop=$(python3 -c "import json;print(json.load(open('seeded/$id/meta.json'))['property'])"); fi
  out=$(./tools_mutant.sh $patch $prop 2>&1 | grep -E "MUTANT|PATCH-FAILED")
  case "$out" in
    *PATCH-FAILED*) echo "SELFTEST $id $prop N-A (patch no longer applies)";;
    *"rc=1"*) echo "SELFTEST $id $prop caught: ${out#*rc=1 }";;
    *) echo "SELFTEST $id $prop MISSED: $out";;
  esac
done
