#!/bin/bash
# tools_seed.sh <dir-with-mutant> <i> : confirm a seeded change (applies, suite passes, demo fails with / passes without)
set -u
export GOFLAGS=-mod=mod GOPROXY=off GOSUMDB=off GOTOOLCHAIN=local
D=$1; I=$2; W=/tmp/chk-$(basename $D)-$I
git -C /repo worktree remove --force $W >/dev/null 2>&1; rm -rf $W
git -C /repo worktree add -q --detach $W HEAD || exit 3
cd $W
if ! git apply $D/mutant$I.diff 2>/tmp/apply.err; then echo "SEED $(basename $D)#$I APPLY-FAILED: $(head -2 /tmp/apply.err | tr '\n' ' ')"; cd /; git -C /repo worktree remove --force $W; exit 4; fi
go build ./... 2>&1 | tail -2
suite=$(go test -vet=off -count=1 ./... 2>&1 | grep -v "no test files" | grep -c "^ok")
cp $D/demo${I}_test.go.txt engine/zz_demo${I}_test.go
with=$(go test -vet=off -count=1 -run "Demo$I" ./engine/ 2>&1 | tail -1 | cut -c1-40)
git checkout -q -- . 
without=$(go test -vet=off -count=1 -run "Demo$I" ./engine/ 2>&1 | tail -1 | cut -c1-40)
echo "SEED $(basename $D)#$I suite_ok_pkgs=$suite demo_with_change=[$with] demo_without=[$without]"
cd /; git -C /repo worktree remove --force $W
