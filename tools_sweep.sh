#!/bin/bash
# silence sweep: every quick check at the given seeds; prints one line per run
cd /verif
for sd in "$@"; do
  for p in C01 C02 C03 C04 C05 C06 C07 C08 C09 C10 C11 C12 C13 C14 C15 C16 C17 C18 C19 C20; do
    out=$(./check run $p -seed $sd 2>&1); rc=$?
    echo "seed=$sd $p rc=$rc $(echo "$out" | grep -E 'SUMMARY' | sed 's/SUMMARY //') $(echo "$out" | grep -c VIOLATION) viol"
    if [ $rc -ne 0 ]; then echo "$out" | grep -E "VIOLATION|INCONCL" | head -5; fi
  done
done
