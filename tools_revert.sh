#!/bin/bash
# for every fix: commit recorded in KNOWN_FINDINGS.txt: does un-doing it on the current tree make the property's check fire again?
export GOFLAGS=-mod=mod GOPROXY=off GOSUMDB=off GOTOOLCHAIN=local
mkdir -p /var/tmp/reverts; cd /verif
grep '^fixed:' /verif/KNOWN_FINDINGS.txt | while read -r _ props hash rest; do
  props=${props#property=}; h=${hash}
  d=/var/tmp/reverts/revert-$h.diff
  git -C /repo diff $h $h~1 > $d 2>/dev/null
  if ! git -C /repo apply --check $d 2>/dev/null; then echo "REVERT $h $props N-A (later commits changed the same lines)"; continue; fi
  plist=$(echo $props | tr ',' ' ' | cut -d' ' -f1-2)
  ./tools_mutant.sh $d $plist 2>&1 | grep -E "MUTANT|PATCH" | sed "s/^/REVERT $h /"
done
