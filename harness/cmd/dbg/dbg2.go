package main

import (
	"context"
	"fmt"
	"time"

	"github.com/prometheus/prometheus/promql"
	"github.com/thanos-community/promql-engine/engine"
	"verifharness/h"
)

func dbgRemote(c h.Case) {
	le := engine.NewLocalEngine(engine.Opts{DisableFallback: true, EngineOpts: promql.EngineOpts{Timeout: time.Hour, MaxSamples: 1e9}}, h.NewStore(c.Dataset, c.Store))
	q, err := le.NewRangeQuery(&promql.QueryOpts{}, c.Query, time.UnixMilli(c.Window.StartMs), time.UnixMilli(c.Window.EndMs), 0)
	fmt.Println("create:", err)
	if err == nil {
		r := q.Exec(context.Background())
		fmt.Printf("remote-style range(step 0): %v err=%v\n", r.Value, r.Err)
	}
}
