package main

import (
	"context"
	"encoding/json"
	"fmt"
	"os"

	"github.com/prometheus/prometheus/storage"
	"verifharness/h"
)

func main() {
	b, _ := os.ReadFile(os.Args[1])
	var c h.Case
	if err := json.Unmarshal(b, &c); err != nil {
		panic(err)
	}
	ctx := context.Background()
	fmt.Println("query:", c.Query, "window:", c.Window)
	fmt.Println("engine:   ", h.RunEngine(ctx, h.NewStore(c.Dataset, c.Store), c.Engine, c.Query, c.Window).Res)
	fmt.Println("reference:", h.RunReference(ctx, h.NewStore(c.Dataset, c.Store), c.Engine, c.Query, c.Window).Res)
	dbgRemote(c)
	if c.NParts > 0 {
		parts := make([]h.Dataset, c.NParts)
		for i, s := range c.Dataset.Series {
			parts[c.Parts[i]%c.NParts].Series = append(parts[c.Parts[i]%c.NParts].Series, s)
		}
		var qs []storage.Queryable
		for _, d := range parts {
			qs = append(qs, h.NewStore(d, c.Store))
		}
		fmt.Println("distributed:", h.RunDistributed(ctx, qs, c.Engine, c.Query, c.Window).Res)
	}
}
