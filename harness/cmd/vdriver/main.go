// vdriver orchestrates one check: it rebuilds the worker from /repo's current working tree
// (build tag verif), derives the fixed case list of the tier, runs it in child processes,
// treats a dead child as an observation, matches violations against KNOWN_FINDINGS.txt
// witnesses, and writes evidence/<id>.json and replay files. It does not link /repo.
package main

import (
	"bufio"
	"bytes"
	"encoding/json"
	"flag"
	"fmt"
	"os"
	"os/exec"
	"path/filepath"
	"regexp"
	"sort"
	"strconv"
	"strings"
	"sync"
	"sync/atomic"
	"time"
)

type event struct {
	Ev         string           `json:"ev"`
	I          int              `json:"i"`
	Hash       string           `json:"hash,omitempty"`
	Query      string           `json:"query,omitempty"`
	NonTrivial bool             `json:"nontrivial,omitempty"`
	Skipped    string           `json:"skipped,omitempty"`
	Inconcl    string           `json:"inconclusive,omitempty"`
	Rule       string           `json:"rule,omitempty"`
	Detail     string           `json:"detail,omitempty"`
	Case       json.RawMessage  `json:"case,omitempty"`
	Shrunk     json.RawMessage  `json:"shrunk,omitempty"`
	Counters   map[string]int64 `json:"counters,omitempty"`
	Tags       []string         `json:"tags,omitempty"`
	Ms         float64          `json:"ms,omitempty"`
}

type finding struct {
	fixed     bool
	id        string
	props     []string
	rule      string
	witnesses []string
	text      string
	crashRe   string
}

var (
	outDir   string // where evidence/, replays/ and .work/ go (VERIF_OUT, default verifDir)
	verifDir string
	repoDir  = "/repo"
	goEnv    []string
)

// findingsPath: the committed known-findings file (VERIF_FINDINGS overrides it for experiments only).
func findingsPath() string {
	if v := os.Getenv("VERIF_FINDINGS"); v != "" {
		return v
	}
	return filepath.Join(verifDir, "KNOWN_FINDINGS.txt")
}

func must(err error) {
	if err != nil {
		fmt.Fprintln(os.Stderr, "vdriver:", err)
		os.Exit(2)
	}
}

func loadFindings() []finding {
	f, err := os.Open(findingsPath())
	if err != nil {
		return nil
	}
	defer f.Close()
	var out []finding
	sc := bufio.NewScanner(f)
	sc.Buffer(make([]byte, 1<<20), 1<<20)
	for sc.Scan() {
		line := strings.TrimSpace(sc.Text())
		var fd finding
		switch {
		case strings.HasPrefix(line, "finding:"):
			line = strings.TrimPrefix(line, "finding:")
		case strings.HasPrefix(line, "fixed:"):
			fd.fixed = true
			line = strings.TrimPrefix(line, "fixed:")
		default:
			continue
		}
		head, text, _ := strings.Cut(line, "::")
		fd.text = strings.TrimSpace(text)
		for _, tok := range strings.Fields(head) {
			k, v, ok := strings.Cut(tok, "=")
			if !ok {
				continue
			}
			switch k {
			case "id":
				fd.id = v
			case "property":
				fd.props = strings.Split(v, ",")
			case "rule":
				fd.rule = v
			case "witness":
				fd.witnesses = append(fd.witnesses, strings.Split(v, ",")...)
			case "crash":
				fd.crashRe = v
			}
		}
		out = append(out, fd)
	}
	return out
}

func build(race bool) (string, error) {
	name := "vworker"
	args := []string{"build", "-tags", "verif"}
	if race {
		name = "vworker-race"
		args = append(args, "-race")
	}
	bin := filepath.Join(verifDir, "bin", name)
	if outDir != verifDir {
		os.MkdirAll(filepath.Join(outDir, "bin"), 0o755)
		bin = filepath.Join(outDir, "bin", name)
	}
	hdir := filepath.Join(verifDir, "harness")
	if alt := os.Getenv("VERIF_REPO"); alt != "" && alt != "/repo" {
		// selftest against a scratch copy: private modfile with the replace redirected
		b, err := os.ReadFile(filepath.Join(hdir, "go.mod"))
		if err != nil {
			return "", err
		}
		mf := filepath.Join(outDir, ".work", "alt.mod")
		os.MkdirAll(filepath.Dir(mf), 0o755)
		os.WriteFile(mf, bytes.ReplaceAll(b, []byte("=> /repo"), []byte("=> "+alt)), 0o644)
		sum, _ := os.ReadFile(filepath.Join(hdir, "go.sum"))
		os.WriteFile(strings.TrimSuffix(mf, ".mod")+".sum", sum, 0o644)
		args = append(args, "-modfile="+mf)
		bin += "-alt"
	}
	args = append(args, "-o", bin, "./cmd/vworker")
	cmd := exec.Command("go", args...)
	cmd.Dir = hdir
	cmd.Env = goEnv
	outb, err := cmd.CombinedOutput()
	if err != nil {
		return "", fmt.Errorf("go %s: %v\n%s", strings.Join(args, " "), err, outb)
	}
	return bin, nil
}

type batchResult struct {
	events  []event
	crashes []crash
}

type crash struct {
	index  int
	query  string
	stderr string
	exit   string
}

func readEvents(path string) []event {
	f, err := os.Open(path)
	if err != nil {
		return nil
	}
	defer f.Close()
	var out []event
	sc := bufio.NewScanner(f)
	sc.Buffer(make([]byte, 64<<20), 64<<20)
	for sc.Scan() {
		var e event
		if json.Unmarshal(sc.Bytes(), &e) == nil && e.Ev != "" {
			out = append(out, e)
		}
	}
	return out
}

func tailFile(path string, n int) string {
	b, _ := os.ReadFile(path)
	if len(b) > n {
		// keep the head (panic message + first stack) rather than the tail
		return string(b[:n])
	}
	return string(b)
}

type runCfg struct {
	bin      string
	prop     string
	seed     uint64
	tier     string
	work     string
	watchdog time.Duration
	extra    []string
	env      []string
}

// runRange runs cases [from,to) in children, restarting after each crash.
func runRange(rc runCfg, id int, from, to int) batchResult {
	var br batchResult
	attempt := 0
	for from < to {
		attempt++
		tag := fmt.Sprintf("%s-b%d-a%d", rc.prop, id, attempt)
		evp := filepath.Join(rc.work, tag+".jsonl")
		errp := filepath.Join(rc.work, tag+".stderr")
		os.Remove(evp)
		args := []string{"-s", "QUIT", fmt.Sprintf("%d", int(rc.watchdog.Seconds())), rc.bin,
			"-prop", rc.prop, "-seed", fmt.Sprint(rc.seed), "-tier", rc.tier, "-from", fmt.Sprint(from), "-to", fmt.Sprint(to),
			"-out", evp, "-findings", findingsPath(), "-sample-every", "997"}
		args = append(args, rc.extra...)
		cmd := exec.Command("timeout", args...)
		cmd.Env = append(os.Environ(), rc.env...)
		ef, _ := os.Create(errp)
		cmd.Stdout = ef
		cmd.Stderr = ef
		err := cmd.Run()
		ef.Close()
		evs := readEvents(evp)
		br.events = append(br.events, evs...)
		done := false
		last := -1
		lastQ := ""
		ended := map[int]bool{}
		for _, e := range evs {
			switch e.Ev {
			case "begin":
				last, lastQ = e.I, e.Query
			case "end":
				ended[e.I] = true
			case "done":
				done = true
			}
		}
		if done && (err == nil || strings.Contains(err.Error(), "exit status 66")) {
			// exit status 66 is the race detector's "reports were written" code; the reports are read from the log
			os.Remove(errp)
			os.Remove(evp)
			break
		}
		exit := "unknown"
		if err != nil {
			exit = err.Error()
		}
		if last < 0 || ended[last] {
			// died outside a case (start-up failure): do not loop forever
			br.crashes = append(br.crashes, crash{index: -1, stderr: tailFile(errp, 6000), exit: exit})
			break
		}
		br.crashes = append(br.crashes, crash{index: last, query: lastQ, stderr: tailFile(errp, 12000), exit: exit})
		from = last + 1
	}
	return br
}

var raceExtra int

func workerInfo(bin, prop, tier string) (n, batch int, rule string, race bool, err error) {
	out, e := exec.Command(bin, "-prop", prop, "-tier", tier, "-info").Output()
	if e != nil {
		return 0, 0, "", false, fmt.Errorf("worker -info: %v", e)
	}
	var info struct {
		N     int
		Batch int
		Rule  string
		Race  bool
		RaceN int
	}
	if e := json.Unmarshal(out, &info); e != nil {
		return 0, 0, "", false, e
	}
	raceExtra = info.RaceN
	return info.N, info.Batch, info.Rule, info.Race, nil
}

var reFrame = regexp.MustCompile(`(?m)^(github\.com/thanos-community/promql-engine/\S+)\(`)

func topEngineFrame(stderr string) string {
	m := reFrame.FindStringSubmatch(stderr)
	if m == nil {
		return "none"
	}
	return strings.TrimPrefix(m[1], "github.com/thanos-community/promql-engine/")
}

func main() {
	exe, _ := os.Executable()
	verifDir = filepath.Dir(filepath.Dir(exe))
	if v := os.Getenv("VERIF_DIR"); v != "" {
		verifDir = v
	}
	outDir = verifDir
	if v := os.Getenv("VERIF_OUT"); v != "" {
		outDir = v
		os.MkdirAll(outDir, 0o755)
	}
	goEnv = append(os.Environ(), "GOFLAGS=-mod=mod", "GOPROXY=off", "GOSUMDB=off", "GOTOOLCHAIN=local")

	if len(os.Args) < 2 {
		fmt.Fprintln(os.Stderr, "usage: vdriver run <Cxx> [-tier quick|thorough] [-seed n] | replay <file>")
		os.Exit(2)
	}
	switch os.Args[1] {
	case "run":
		os.Exit(cmdRun(os.Args[2:]))
	case "replay":
		os.Exit(cmdReplay(os.Args[2:]))
	default:
		fmt.Fprintln(os.Stderr, "unknown command", os.Args[1])
		os.Exit(2)
	}
}

func envSeed() uint64 {
	if s := os.Getenv("VERIF_SEED"); s != "" {
		if n, err := strconv.ParseUint(s, 10, 64); err == nil {
			return n
		}
	}
	return 1
}

func cmdReplay(args []string) int {
	if len(args) < 1 {
		return 2
	}
	b, err := os.ReadFile(args[0])
	must(err)
	var c struct {
		Prop string `json:"property"`
		Race bool   `json:"race"`
	}
	must(json.Unmarshal(b, &c))
	bin, err := build(false)
	if err != nil {
		fmt.Println("INCONCLUSIVE build-failed")
		fmt.Fprintln(os.Stderr, err)
		return 2
	}
	work := filepath.Join(outDir, ".work", "replay")
	os.MkdirAll(work, 0o755)
	viol, crashed, detail := replayOne(bin, args[0], work)
	if viol || crashed {
		fmt.Printf("VIOLATION property=%s replay=%s\n", c.Prop, args[0])
		fmt.Println(detail)
		return 1
	}
	fmt.Println("replay: no violation")
	return 0
}

// replayOne runs one case file in a child; returns whether it violates / crashes.
func replayOne(bin, file, work string) (violates, crashed bool, detail string) {
	evp := filepath.Join(work, "replay-"+filepath.Base(file)+".jsonl")
	errp := evp + ".stderr"
	os.Remove(evp)
	cmd := exec.Command("timeout", "-s", "QUIT", "300", bin, "-replay", file, "-out", evp, "-findings", findingsPath())
	raceLog := ""
	if b, err := os.ReadFile(file); err == nil && bytes.Contains(b, []byte(`"race": true`)) || bytes.Contains(b, []byte(`"race":true`)) {
		if rb, err := build(true); err == nil {
			raceLog = filepath.Join(work, "replay-race-"+filepath.Base(file))
			cmd = exec.Command("timeout", "-s", "QUIT", "300", rb, "-replay", file, "-out", evp, "-findings", findingsPath())
			cmd.Env = append(os.Environ(), "GORACE=halt_on_error=0 log_path="+raceLog)
		}
	}
	ef, _ := os.Create(errp)
	cmd.Stdout, cmd.Stderr = ef, ef
	err := cmd.Run()
	ef.Close()
	evs := readEvents(evp)
	ended := false
	for _, e := range evs {
		if e.Ev == "violation" {
			violates = true
			detail = e.Rule + ": " + e.Detail
		}
		if e.Ev == "end" {
			ended = true
		}
	}
	if err != nil && !ended {
		crashed = true
		detail = "child died: " + err.Error() + "\n" + tailFile(errp, 3000)
	}
	if raceLog != "" {
		files, _ := filepath.Glob(raceLog + ".*")
		for _, f := range files {
			if b, _ := os.ReadFile(f); bytes.Contains(b, []byte("WARNING: DATA RACE")) {
				violates = true
				detail = "race detector report:\n" + string(b[:min(len(b), 2500)])
			}
			os.Remove(f)
		}
	}
	os.Remove(evp)
	os.Remove(errp)
	return
}

func cmdRun(args []string) int {
	fs := flag.NewFlagSet("run", flag.ExitOnError)
	tier := fs.String("tier", "", "quick|thorough")
	seedF := fs.Uint64("seed", 0, "seed (default VERIF_SEED or 1)")
	jobs := fs.Int("jobs", 16, "parallel children")
	limit := fs.Int("limit", 0, "cap case count (exploration only)")
	explore := fs.Bool("explore", false, "print violation summaries instead of stopping at the interface lines")
	if len(args) < 1 {
		return 2
	}
	prop := args[0]
	fs.Parse(args[1:])
	if *tier == "" {
		*tier = os.Getenv("VERIF_TIER")
	}
	if *tier == "" {
		*tier = "quick"
	}
	seed := *seedF
	if seed == 0 {
		seed = envSeed()
	}
	t0 := time.Now()

	bin, err := build(false)
	if err != nil {
		fmt.Println("INCONCLUSIVE build-failed (the worker does not build against /repo's working tree)")
		fmt.Fprintln(os.Stderr, err)
		return 2
	}
	n, batch, rule, race, err := workerInfo(bin, prop, *tier)
	must(err)
	runBin := bin
	var env []string
	work := filepath.Join(outDir, ".work", fmt.Sprintf("%s-%s-%d", prop, *tier, seed))
	os.RemoveAll(work)
	os.MkdirAll(work, 0o755)
	if race {
		rb, err := build(true)
		if err != nil {
			fmt.Println("INCONCLUSIVE build-failed (race build)")
			fmt.Fprintln(os.Stderr, err)
			return 2
		}
		runBin = rb
		env = append(env, "GORACE=halt_on_error=0 log_path="+filepath.Join(work, "race"))
	}
	if *limit > 0 && *limit < n {
		n = *limit
	}

	findings := loadFindings()
	exitCode := 0
	violations := 0
	var lines []string

	// 1. replay committed witnesses of open findings for this property
	known := 0
	for _, fd := range findings {
		if fd.fixed {
			continue
		}
		for _, w := range fd.witnesses {
			wp := filepath.Join(verifDir, w)
			b, err := os.ReadFile(wp)
			if err != nil {
				continue
			}
			var c struct {
				Prop string `json:"property"`
			}
			if json.Unmarshal(b, &c) != nil || c.Prop != prop {
				continue
			}
			v, cr, _ := replayOne(runBin, wp, work)
			if v || cr {
				known++
				lines = append(lines, fmt.Sprintf("KNOWN-FINDING: property=%s %s %s (witness %s)", prop, fd.id, fd.text, w))
			} else {
				lines = append(lines, fmt.Sprintf("NOTE known finding %s not reproduced by witness %s (repaired?)", fd.id, w))
			}
		}
	}

	// 2. the fixed case list
	rc := runCfg{bin: runBin, prop: prop, seed: seed, tier: *tier, work: work, watchdog: 20 * time.Minute, env: env}
	type job struct{ id, from, to int }
	var jobsList []job
	for i, id := 0, 0; i < n; i, id = i+batch, id+1 {
		to := i + batch
		if to > n {
			to = n
		}
		jobsList = append(jobsList, job{id, i, to})
	}
	results := make([]batchResult, len(jobsList))
	var wg sync.WaitGroup
	sem := make(chan struct{}, *jobs)
	// A tree that violates the property at every turn (e.g. a hang per case) need not be explored to
	// the end: once 60 violations are on record the remaining batches are not started. The verdict
	// (exit 1, VIOLATION lines) is the same; never taken on a tree without violations.
	var seenViolations atomic.Int64
	stoppedEarly := false
	for k, j := range jobsList {
		if seenViolations.Load() >= 60 && !*explore {
			stoppedEarly = true
			break
		}
		wg.Add(1)
		sem <- struct{}{}
		go func(k int, j job) {
			defer wg.Done()
			defer func() { <-sem }()
			results[k] = runRange(rc, j.id, j.from, j.to)
			for _, e := range results[k].events {
				if e.Ev == "violation" {
					seenViolations.Add(1)
				}
			}
		}(k, j)
	}
	wg.Wait()
	if stoppedEarly {
		lines = append(lines, "NOTE stopped early: 60 violations on record, remaining batches not run")
	}

	// 2b. the property's extra rounds under the race-detector build (e.g. Cancel racing Exec)
	if raceExtra > 0 && !race && *limit == 0 {
		rb, err := build(true)
		if err != nil {
			fmt.Println("INCONCLUSIVE build-failed (race build)")
			fmt.Fprintln(os.Stderr, err)
			return 2
		}
		race = true
		rc2 := rc
		rc2.bin = rb
		rc2.extra = []string{"-phase", "race"}
		rc2.env = append(rc2.env, "GORACE=halt_on_error=0 log_path="+filepath.Join(work, "race"))
		per := 8
		var rres []batchResult
		var mu sync.Mutex
		for i, id := 0, 10000; i < raceExtra; i, id = i+per, id+1 {
			to := i + per
			if to > raceExtra {
				to = raceExtra
			}
			wg.Add(1)
			sem <- struct{}{}
			go func(id, from, to int) {
				defer wg.Done()
				defer func() { <-sem }()
				br := runRange(rc2, id, from, to)
				mu.Lock()
				rres = append(rres, br)
				mu.Unlock()
			}(id, i, to)
		}
		wg.Wait()
		results = append(results, rres...)
	}

	// 3. aggregate
	evals, skipped, inconcl := 0, 0, 0
	distinct := map[string]bool{}
	counters := map[string]int64{}
	tags := map[string]int{}
	var samples []json.RawMessage
	type viol struct {
		e event
	}
	var viols []event
	var crashes []crash
	var totalMs float64
	for _, br := range results {
		crashes = append(crashes, br.crashes...)
		for _, e := range br.events {
			switch e.Ev {
			case "end":
				evals++
				totalMs += e.Ms
				if e.Skipped != "" {
					skipped++
				}
				if e.Inconcl != "" {
					inconcl++
				}
				if e.NonTrivial {
					distinct[e.Hash] = true
				}
				for k, v := range e.Counters {
					counters[k] += v
				}
				for _, t := range e.Tags {
					tags[t]++
				}
				if e.Case != nil && len(samples) < 6 {
					samples = append(samples, trimSample(e.Case))
				}
			case "violation":
				viols = append(viols, e)
			}
		}
	}
	_ = viol{}

	repDir := filepath.Join(outDir, "replays", prop)
	os.MkdirAll(repDir, 0o755)
	ruleCount := map[string]int{}
	for _, v := range viols {
		ruleCount[v.Rule]++
		body := v.Shrunk
		if body == nil {
			body = v.Case
		}
		var m map[string]any
		json.Unmarshal(body, &m)
		m["observed"] = map[string]any{"rule": v.Rule, "detail": v.Detail}
		if v.Shrunk != nil {
			var orig any
			json.Unmarshal(v.Case, &orig)
			m["original"] = orig
		}
		b, _ := json.MarshalIndent(m, "", " ")
		path := filepath.Join(repDir, fmt.Sprintf("%s-s%d-i%d.json", v.Rule, seed, v.I))
		path = strings.ReplaceAll(path, ":", "_")
		os.WriteFile(path, b, 0o644)
		violations++
		if violations <= 25 || *explore {
			q := ""
			if qq, ok := m["query"].(string); ok {
				q = qq
			}
			lines = append(lines, fmt.Sprintf("VIOLATION property=%s replay=%s", prop, path))
			lines = append(lines, fmt.Sprintf("  rule=%s query=%s\n  %s", v.Rule, q, firstLines(v.Detail, 4)))
		}
		exitCode = 1
	}
	for _, c := range crashes {
		frame := topEngineFrame(c.stderr)
		matched := ""
		for _, fd := range findings {
			if fd.fixed || fd.crashRe == "" {
				continue
			}
			okProp := false
			for _, p := range fd.props {
				if p == prop {
					okProp = true
				}
			}
			if re, err := regexp.Compile(fd.crashRe); okProp && err == nil && re.MatchString(c.stderr) {
				matched = fd.id + " " + fd.text
			}
		}
		if matched != "" {
			lines = append(lines, fmt.Sprintf("KNOWN-FINDING: property=%s %s (crash at case %d)", prop, matched, c.index))
			known++
			continue
		}
		// fetch the case for the replay file
		var body []byte
		if c.index >= 0 {
			body, _ = exec.Command(bin, "-prop", prop, "-seed", fmt.Sprint(seed), "-tier", *tier, "-from", fmt.Sprint(c.index), "-to", fmt.Sprint(c.index+1), "-print", "-findings", findingsPath()).Output()
		}
		var m map[string]any
		if json.Unmarshal(body, &m) != nil {
			m = map[string]any{"property": prop}
		}
		m["observed"] = map[string]any{"rule": "crash:" + frame, "exit": c.exit, "stderr": c.stderr}
		b, _ := json.MarshalIndent(m, "", " ")
		path := filepath.Join(repDir, fmt.Sprintf("crash-s%d-i%d.json", seed, c.index))
		os.WriteFile(path, b, 0o644)
		violations++
		ruleCount["crash:"+frame]++
		lines = append(lines, fmt.Sprintf("VIOLATION property=%s replay=%s", prop, path))
		lines = append(lines, fmt.Sprintf("  rule=crash:%s exit=%s query=%s\n  %s", frame, c.exit, c.query, firstLines(c.stderr, 6)))
		exitCode = 1
	}

	// race reports
	raceReports := 0
	if race {
		files, _ := filepath.Glob(filepath.Join(work, "race.*"))
		seen := map[string]bool{}
		for _, f := range files {
			b, _ := os.ReadFile(f)
			for _, blk := range strings.Split(string(b), "==================") {
				if !strings.Contains(blk, "WARNING: DATA RACE") {
					continue
				}
				key := raceKey(blk)
				if seen[key] {
					continue
				}
				seen[key] = true
				raceReports++
				path := filepath.Join(repDir, fmt.Sprintf("race-s%d-%d.txt", seed, raceReports))
				os.WriteFile(path, []byte(blk), 0o644)
				violations++
				ruleCount["race"]++
				lines = append(lines, fmt.Sprintf("VIOLATION property=%s replay=%s", prop, path))
				lines = append(lines, "  rule=race "+key)
				exitCode = 1
			}
		}
		counters["race_reports_distinct"] = int64(raceReports)
	}

	nontrivial := len(distinct)
	if exitCode == 0 && (evals == 0 || nontrivial < 2) {
		lines = append(lines, fmt.Sprintf("INCONCLUSIVE property=%s: the monitors observed too little (evaluations=%d, non-trivial=%d)", prop, evals, nontrivial))
		exitCode = 2
	}

	// 4. evidence
	level := "exploration"
	switch prop {
	case "C13", "C14", "C15", "C17":
		level = "fault_enumeration"
	}
	tagKinds := map[string]int{}
	for t := range tags {
		k, _, _ := strings.Cut(t, ":")
		k, _, _ = strings.Cut(k, "=")
		tagKinds[k]++
	}
	cov := map[string]any{
		"evaluations":         evals,
		"distinct_nontrivial": nontrivial,
		"rule":                rule,
		"samples":             samples,
		"skipped":             skipped,
		"inconclusive":        inconcl,
		"crashed_children":    len(crashes),
		"monitor_counters":    counters,
		"distinct_cells":      tagKinds,
		"known_findings_seen": known,
		"violations_by_rule":  ruleCount,
		"case_time_ms_total":  totalMs,
	}
	if len(samples) == 0 {
		cov["samples"] = []any{fmt.Sprintf("no sample case was logged (evaluations=%d)", evals)}
	}
	ev := map[string]any{
		"property_id": prop,
		"tier":        *tier,
		"seed":        seed,
		"level":       level,
		"coverage":    cov,
		"assumptions": []string{
			"the pinned Prometheus engine (module cache, v0.40.1) is the reference semantics",
			"MonStore implements the storage contract (cross-checked against the reference engine on a real TSDB in selftest)",
			"verdicts hold for the executions observed only",
		},
		"wall_s":     time.Since(t0).Seconds(),
		"violations": violations,
	}
	os.MkdirAll(filepath.Join(outDir, "evidence"), 0o755)
	b, _ := json.MarshalIndent(ev, "", " ")
	must(os.WriteFile(filepath.Join(outDir, "evidence", prop+".json"), b, 0o644))

	sort.SliceStable(lines, func(i, j int) bool { return false })
	for _, l := range lines {
		fmt.Println(l)
	}
	fmt.Printf("SUMMARY property=%s tier=%s seed=%d cases=%d evaluated=%d nontrivial=%d skipped=%d crashes=%d violations=%d known=%d wall=%.1fs\n",
		prop, *tier, seed, n, evals, nontrivial, skipped, len(crashes), violations, known, time.Since(t0).Seconds())
	if *explore {
		var ks []string
		for k := range ruleCount {
			ks = append(ks, k)
		}
		sort.Strings(ks)
		for _, k := range ks {
			fmt.Printf("  rule %-28s %d\n", k, ruleCount[k])
		}
	}
	if exitCode == 0 {
		os.RemoveAll(work)
	}
	return exitCode
}

func min(a, b int) int {
	if a < b {
		return a
	}
	return b
}

// trimSample shortens the stored samples of a case for the evidence file (the case stays recognisable).
func trimSample(raw json.RawMessage) json.RawMessage {
	var m map[string]any
	if json.Unmarshal(raw, &m) != nil {
		return raw
	}
	if ds, ok := m["dataset"].(map[string]any); ok {
		if ser, ok := ds["series"].([]any); ok {
			for _, s := range ser {
				if sm, ok := s.(map[string]any); ok {
					if pts, ok := sm["samples"].([]any); ok && len(pts) > 4 {
						sm["samples"] = append(pts[:4:4], fmt.Sprintf("... %d more", len(pts)-4))
					}
				}
			}
			if len(ser) > 8 {
				ds["series"] = append(ser[:8:8], fmt.Sprintf("... %d more series", len(ser)-8))
			}
		}
	}
	b, err := json.Marshal(m)
	if err != nil {
		return raw
	}
	return b
}

func firstLines(s string, n int) string {
	ls := strings.Split(s, "\n")
	if len(ls) > n {
		ls = ls[:n]
	}
	for i := range ls {
		if len(ls[i]) > 400 {
			ls[i] = ls[i][:400] + "…"
		}
	}
	return strings.Join(ls, "\n  ")
}

var reRaceFn = regexp.MustCompile(`(?m)^\s+(github\.com/thanos-community/promql-engine/[^\s(]+)\(`)

// raceKey de-duplicates race reports by the first engine frame of each of the two stacks.
func raceKey(blk string) string {
	parts := strings.Split(blk, "\n\n")
	var keys []string
	for _, p := range parts {
		if strings.Contains(p, "by goroutine") || strings.Contains(p, "by main goroutine") {
			if m := reRaceFn.FindStringSubmatch(p); m != nil {
				keys = append(keys, strings.TrimPrefix(m[1], "github.com/thanos-community/promql-engine/"))
			}
		}
		if len(keys) == 2 {
			break
		}
	}
	sort.Strings(keys)
	return strings.Join(keys, " <-> ")
}
