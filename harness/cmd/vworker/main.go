// vworker runs a slice of a property's case list in-process against /repo (built with
// -tags verif) and writes a JSONL event log. One crash ends the process; the driver
// reads the log to find the case in flight.
package main

import (
	"encoding/json"
	"flag"
	"fmt"
	"os"
	"path/filepath"
	"strings"
	"time"

	"verifharness/h"
)

type event struct {
	Ev         string           `json:"ev"`
	I          int              `json:"i"`
	Hash       string           `json:"hash,omitempty"`
	Query      string           `json:"query,omitempty"`
	NonTrivial bool             `json:"nontrivial,omitempty"`
	Skipped    string           `json:"skipped,omitempty"`
	Inconcl    string           `json:"inconclusive,omitempty"`
	Rule       string           `json:"rule,omitempty"`
	Detail     string           `json:"detail,omitempty"`
	Case       *h.Case          `json:"case,omitempty"`
	Shrunk     *h.Case          `json:"shrunk,omitempty"`
	Counters   map[string]int64 `json:"counters,omitempty"`
	Tags       []string         `json:"tags,omitempty"`
	Ms         float64          `json:"ms,omitempty"`
}

var out *os.File

func emit(e event) {
	b, _ := json.Marshal(e)
	b = append(b, '\n')
	out.Write(b)
}

func main() {
	prop := flag.String("prop", "", "property id")
	seed := flag.Uint64("seed", 1, "seed")
	tier := flag.String("tier", "quick", "tier")
	from := flag.Int("from", 0, "first case index")
	to := flag.Int("to", 0, "one past last case index")
	outp := flag.String("out", "", "event log path")
	replay := flag.String("replay", "", "replay one case file")
	findings := flag.String("findings", "", "KNOWN_FINDINGS.txt")
	doShrink := flag.Bool("shrink", true, "shrink violations in-process")
	sampleEvery := flag.Int("sample-every", 0, "emit the full case every n cases")
	printCase := flag.Bool("print", false, "print generated cases only")
	info := flag.Bool("info", false, "print case count and batch size")
	phase := flag.String("phase", "", "\"race\": the property's extra rounds for the race-detector build")
	flag.Parse()

	if *info {
		p := h.Lookup(*prop)
		if p == nil {
			fmt.Fprintln(os.Stderr, "unknown property", *prop)
			os.Exit(3)
		}
		race := false
		if rp, ok := p.(interface{ Race() bool }); ok {
			race = rp.Race()
		}
		raceN := 0
		if rp, ok := p.(interface{ RaceCases(string) int }); ok {
			raceN = rp.RaceCases(*tier)
		}
		b, _ := json.Marshal(map[string]any{"N": p.NumCases(*tier), "Batch": p.BatchSize(), "Rule": p.Rule(), "Race": race, "RaceN": raceN})
		fmt.Println(string(b))
		return
	}
	var err error
	if *outp == "" {
		out = os.Stdout
	} else {
		os.MkdirAll(filepath.Dir(*outp), 0o755)
		out, err = os.OpenFile(*outp, os.O_CREATE|os.O_WRONLY|os.O_APPEND, 0o644)
		if err != nil {
			fmt.Fprintln(os.Stderr, "open out:", err)
			os.Exit(3)
		}
	}
	if *findings != "" {
		fs, err := h.LoadFindings(*findings)
		if err != nil {
			fmt.Fprintln(os.Stderr, "findings:", err)
			os.Exit(3)
		}
		h.GlobalAvoid = h.AvoidSet(fs)
		for _, f := range fs {
			if !f.Fixed && f.ID != "" {
				h.OpenFindings[f.ID] = true
			}
		}
	}
	h.InstallHooks()

	if *replay != "" {
		b, err := os.ReadFile(*replay)
		if err != nil {
			fmt.Fprintln(os.Stderr, err)
			os.Exit(3)
		}
		var c h.Case
		if err := json.Unmarshal(b, &c); err != nil {
			fmt.Fprintln(os.Stderr, "bad case:", err)
			os.Exit(3)
		}
		p := h.Lookup(c.Prop)
		if p == nil {
			fmt.Fprintln(os.Stderr, "unknown property", c.Prop)
			os.Exit(3)
		}
		runCase(p, c, false, true)
		return
	}

	p := h.Lookup(*prop)
	if p == nil {
		fmt.Fprintln(os.Stderr, "unknown property", *prop, "have", strings.Join(h.PropertyIDs(), ","))
		os.Exit(3)
	}
	hangs := 0
	for i := *from; i < *to; i++ {
		var c h.Case
		if *phase == "race" {
			c = p.(interface {
				GenRace(uint64, string, int) h.Case
			}).GenRace(*seed, *tier, i)
		} else {
			c = p.Gen(*seed, *tier, i)
		}
		if *printCase {
			b, _ := json.Marshal(c)
			fmt.Println(string(b))
			continue
		}
		if runCase(p, c, *doShrink, *sampleEvery > 0 && i%*sampleEvery == 0) == "hang" {
			// every hang costs a full watchdog period and leaves stuck goroutines behind: after three
			// of them the rest of the batch would tell nothing new (a violating tree only)
			if hangs++; hangs >= 3 {
				break
			}
		}
	}
	if *printCase {
		return
	}
	emit(event{Ev: "done", I: *to})
}

func runCase(p h.Property, c h.Case, shrink, sample bool) (firstRule string) {
	emit(event{Ev: "begin", I: c.Index, Query: c.Query, Hash: c.Hash()})
	t0 := time.Now()
	o := p.Check(c)
	el := float64(time.Since(t0).Microseconds()) / 1000
	for _, v := range o.Violations {
		cc := c
		e := event{Ev: "violation", I: c.Index, Rule: v.Rule, Detail: v.Detail, Case: &cc, Query: c.Query}
		firstRule = v.Rule
		if shrink && v.Rule != "hang" {
			if s, d, ok := h.Shrink(p, c, v.Rule); ok {
				e.Shrunk = &s
				e.Detail = d
			}
		}
		emit(e)
		break // one violation event per case; further rules are listed in detail of the replay
	}
	hash := c.Hash()
	if o.Identity != "" {
		hash = o.Identity
	}
	e := event{Ev: "end", I: c.Index, Hash: hash, NonTrivial: o.NonTrivial, Skipped: o.Skipped, Inconcl: o.Inconclusive, Counters: o.Counters, Tags: o.Tags, Ms: el}
	if sample {
		cc := c
		e.Case = &cc
	}
	emit(e)
	return firstRule
}
