package h

import (
	"context"
	"fmt"
	"strings"
	"sync"
	"sync/atomic"

	"github.com/prometheus/prometheus/model/labels"
	"github.com/prometheus/prometheus/model/value"
	"github.com/prometheus/prometheus/promql/parser"
	"github.com/prometheus/prometheus/storage"

	"github.com/thanos-community/promql-engine/execution/model"
	"github.com/thanos-community/promql-engine/query"
)

// contractMon collects the observations of all wrapped operators of one query execution.
type contractMon struct {
	mu           sync.Mutex
	violations   []Violation
	opsByType    map[string]int
	nextCalls    int64
	vectors      int64
	emptyStale   int64 // empty vectors whose T is not the step's (statistic only, see DESIGN C18 trap)
	emptyBatches int64 // empty non-nil batches (statistic only)
	mode         string
}

func (m *contractMon) add(rule, detail string) {
	m.mu.Lock()
	if len(m.violations) < 8 {
		m.violations = append(m.violations, Violation{rule, detail})
	}
	m.mu.Unlock()
}

type contractOp struct {
	inner     model.VectorOperator
	mon       *contractMon
	desc      string
	start     int64
	end       int64
	step      int64
	batch     int
	delivered int // step vectors delivered so far
	ended     bool
	inflight  atomic.Int32
	series    []labels.Labels
	gotSeries bool
	maxID     uint64
	anyID     bool
	probed    bool
}

func (o *contractOp) Explain() (string, []model.VectorOperator) { return o.inner.Explain() }
func (o *contractOp) GetPool() *model.VectorPool                { return o.inner.GetPool() }

func sameSeries(a, b []labels.Labels) bool {
	if len(a) != len(b) {
		return false
	}
	for i := range a {
		if !labels.Equal(a[i], b[i]) {
			return false
		}
	}
	return true
}

func (o *contractOp) Series(ctx context.Context) ([]labels.Labels, error) {
	s, err := o.inner.Series(ctx)
	if err != nil {
		return s, err
	}
	if o.gotSeries {
		if !sameSeries(o.series, s) {
			o.mon.add("R1-series-changed", fmt.Sprintf("%s: Series() returned %d series, earlier %d (or different labels)", o.desc, len(s), len(o.series)))
		}
	} else {
		cp := make([]labels.Labels, len(s))
		for i := range s {
			cp[i] = s[i].Copy()
		}
		o.series, o.gotSeries = cp, true
		o.checkIDs()
	}
	return s, nil
}

func (o *contractOp) checkIDs() {
	if o.gotSeries && o.anyID && o.maxID >= uint64(len(o.series)) {
		o.mon.add("R6-id-out-of-range", fmt.Sprintf("%s: sample ID %d but Series() has %d entries", o.desc, o.maxID, len(o.series)))
		o.anyID = false
	}
}

func (o *contractOp) Next(ctx context.Context) ([]model.StepVector, error) {
	if o.inflight.Add(1) != 1 {
		o.mon.add("R9-concurrent-next", o.desc+": Next called while another Next is in flight")
	}
	defer o.inflight.Add(-1)
	if o.mon.mode == "series-first" && !o.gotSeries {
		if _, err := o.Series(ctx); err != nil {
			return nil, err
		}
	}
	out, err := o.inner.Next(ctx)
	atomic.AddInt64(&o.mon.nextCalls, 1)
	if err != nil {
		return out, err
	}
	if out == nil {
		if o.mon.mode == "probe-end" && !o.probed && ctx.Err() == nil {
			o.probed = true
			again, err2 := o.inner.Next(ctx)
			if err2 == nil && again != nil {
				o.mon.add("R8-resurrected", fmt.Sprintf("%s: Next returned %d vectors after it had signalled the end of the stream", o.desc, len(again)))
			}
		}
		if !o.ended && o.gotSeries && ctx.Err() == nil {
			// R1 at the end of the stream: the list handed out earlier must still be what Series()
			// returns, label for label (a consumer may have edited the shared label slices in place)
			if again, err := o.inner.Series(ctx); err == nil && !sameSeries(o.series, again) {
				o.mon.add("R1-series-changed", fmt.Sprintf("%s: at the end of the stream Series() no longer returns the label sets it returned first (%d series)", o.desc, len(again)))
			}
		}
		o.ended = true
		return nil, nil
	}
	if len(out) == 0 {
		// statistic only: an empty, non-nil batch is neither data nor the end; the contract as stated
		// does not forbid it (the remote operator returns one before it ends)
		atomic.AddInt64(&o.mon.emptyBatches, 1)
	}
	if o.ended {
		o.mon.add("R8-resurrected", fmt.Sprintf("%s: Next returned %d vectors after it had signalled the end of the stream", o.desc, len(out)))
	}
	if len(out) > o.batch {
		o.mon.add("R2-batch-too-large", fmt.Sprintf("%s: batch of %d step vectors (batch size %d)", o.desc, len(out), o.batch))
	}
	for j, v := range out {
		atomic.AddInt64(&o.mon.vectors, 1)
		k := o.delivered + j
		want := o.start + int64(k)*o.step
		if len(v.SampleIDs) != len(v.Samples) {
			o.mon.add("R4-ids-samples-length", fmt.Sprintf("%s: step vector %d has %d IDs and %d samples", o.desc, k, len(v.SampleIDs), len(v.Samples)))
		}
		if len(v.Samples) > 0 || len(v.SampleIDs) > 0 {
			if v.T != want || want > o.end {
				o.mon.add("R3-step-order", fmt.Sprintf("%s: step vector %d of the stream is stamped %d, expected %d (start %d, step %d, end %d)", o.desc, k, v.T, want, o.start, o.step, o.end))
			}
		} else if v.T != want {
			atomic.AddInt64(&o.mon.emptyStale, 1)
		}
		seen := make(map[uint64]struct{}, len(v.SampleIDs))
		for i, id := range v.SampleIDs {
			if _, dup := seen[id]; dup {
				o.mon.add("R5-duplicate-id", fmt.Sprintf("%s: sample ID %d twice in step vector %d (T=%d)", o.desc, id, k, v.T))
				break
			}
			seen[id] = struct{}{}
			if id > o.maxID || !o.anyID {
				o.maxID, o.anyID = id, true
			}
			if i < len(v.Samples) && value.IsStaleNaN(v.Samples[i]) {
				o.mon.add("R7-stale-marker", fmt.Sprintf("%s: staleness marker emitted in step vector %d", o.desc, k))
			}
		}
	}
	o.delivered += len(out)
	o.checkIDs()
	return out, nil
}

// runContract executes the case with the contract wrapper interposed at every operator boundary.
func runContract(c Case, mode string, exec func() ExecOut) (ExecOut, *contractMon) {
	mon := &contractMon{opsByType: map[string]int{}, mode: mode}
	var out ExecOut
	WithWrapper(func(op model.VectorOperator, expr parser.Expr, opts *query.Options) model.VectorOperator {
		typ := fmt.Sprintf("%T", op)
		typ = typ[strings.LastIndex(typ, ".")+1:]
		mon.mu.Lock()
		mon.opsByType[typ]++
		mon.mu.Unlock()
		es := expr.String()
		if len(es) > 80 {
			es = es[:80] + "…"
		}
		w := &contractOp{inner: op, mon: mon, desc: fmt.Sprintf("%s for `%s`", typ, es), start: opts.Start.UnixMilli(), end: opts.End.UnixMilli(), step: opts.Step.Milliseconds(), batch: int(opts.StepsBatch)}
		if w.batch == 0 {
			w.batch = 10
		}
		return w
	}, func() { out = exec() })
	return out, mon
}

type c18Prop struct{ gen *diffProp }

func (c18Prop) ID() string     { return "C18" }
func (c18Prop) BatchSize() int { return 400 }
func (c18Prop) Rule() string {
	return "case = a case of the C01 generator (any native query, dataset, window, optimizer set, GOMAXPROCS), 15% of them executed through the distributed engine over 2 partitions; every operator built by newOperator is wrapped (hook 1) and each Next/Series call is checked against R1-R9 in one of the modes transparent / series-first / probe-end, under hook-point perturbation for a third of the cases; the final result must equal the unwrapped run; non-trivial iff at least 2 operators were wrapped and at least one non-empty step vector was checked; distinct by content hash"
}
func (c18Prop) NumCases(tier string) int {
	if tier == "thorough" {
		return 600000
	}
	return 24000
}

func (p c18Prop) Gen(seed uint64, tier string, i int) Case {
	c := p.gen.Gen(seed^0x18, tier, i)
	c.Prop = "C18"
	c.Seed = seed
	r := NewRng(seed, 18, uint64(i))
	c.Kind = Pick(r, []string{"transparent", "transparent", "transparent", "series-first", "probe-end"})
	if r.P(0.15) {
		c.NParts = 2
		c.Parts = nil
		for range c.Dataset.Series {
			c.Parts = append(c.Parts, r.Intn(2))
		}
		c.Engine.Opt = "none"
	}
	if r.P(0.05) {
		// a narrower and a broader select of one metric, merged by the default optimizers: several
		// operators of the plan then read one pooled series list
		c.Query = Pick(r, []string{`m0{a="x"} / m0`, `m0{a=~"x|y"} * on(a, b, c) m0`, `sum(m0{b="x"}) / sum(m0)`, `m0 - on(a, b, c) m0{c!="z"}`,
			`rate(m0{a!="y"}[1m]) + on(a, b, c) m0`, `sum by (a) (m0{b!="y"}) / on(a) sum by (a) (m0)`, `m1{a="x"} + on(a, b, c) m1`})
		c.Engine.Opt = Pick(r, []string{"default", "all", "merge"})
		c.Engine.Procs = Pick(r, []int{4, 6, 8, 12, 16})
		c.NParts = 0
		c.Parts = nil
	}
	if r.P(0.33) {
		c.Extra = map[string]any{"perturb": float64(1 + r.Uint64()%1000000)}
	}
	return c
}

func (p c18Prop) Check(c Case) Outcome {
	var o Outcome
	if ok, err := NativeSupport(c.Query, c.Window); !ok {
		o.Skipped = "not native: " + fmt.Sprint(err)
		return o
	}
	ctx := context.Background()
	exec := func() ExecOut {
		if c.NParts > 0 {
			var parts []storage.Queryable
			for _, d := range partition(c) {
				parts = append(parts, NewStore(d, c.Store))
			}
			return RunDistributedOver(ctx, NewStore(c.Dataset, c.Store), parts, c.Engine, c.Query, c.Window, nil)
		}
		return RunEngine(ctx, NewStore(c.Dataset, c.Store), c.Engine, c.Query, c.Window)
	}
	plain := exec()
	run := func() (ExecOut, *contractMon) { return runContract(c, c.Kind, exec) }
	var wrapped ExecOut
	var mon *contractMon
	if pert, ok := c.Extra["perturb"].(float64); ok {
		WithPerturbation(uint64(pert), func() { wrapped, mon = run() })
	} else {
		wrapped, mon = run()
	}
	nops := 0
	for t, n := range mon.opsByType {
		nops += n
		o.Count("wrapped:"+t, int64(n))
	}
	o.Count("next_calls_checked", mon.nextCalls)
	o.Count("vectors_checked", mon.vectors)
	o.Count("empty_vectors_with_foreign_T", mon.emptyStale)
	o.Count("empty_non_nil_batches", mon.emptyBatches)
	o.Count("mode:"+c.Kind, 1)
	o.NonTrivial = nops >= 2 && mon.vectors > 0 && len(plain.Res.Series) > 0
	cand := append([]Violation(nil), mon.violations...)
	if d := Compare(wrapped.Res, plain.Res); d != nil {
		var tmp Outcome
		if Excuse(c, wrapped.Res, plain.Res, d, &tmp) == "" {
			rule := "mode-changes-result:" + c.Kind
			cand = append(cand, Violation{rule, fmt.Sprintf("the result with the %s wrapper differs from the plain run: %s\n  wrapped: %s\n  plain:   %s", c.Kind, d.Detail, wrapped.Res, plain.Res)})
		}
	}
	if len(cand) > 0 && InKnownClass(c, &o) {
		return o
	}
	o.Violations = cand
	return o
}

func init() {
	Register(c18Prop{gen: &diffProp{id: "C01", focus: "", depth: 4}})
}
