package h

import (
	"context"
	"errors"
	"fmt"
	"math"
	"runtime"
	"sort"
	"strings"
	"sync"
	"sync/atomic"
	"time"

	"github.com/prometheus/prometheus/promql"
	"github.com/prometheus/prometheus/storage"

	"github.com/thanos-community/promql-engine/api"
	"github.com/thanos-community/promql-engine/engine"
	"github.com/thanos-community/promql-engine/verifhook"
)

// ---------------------------------------------------------------------------------------------
// fixed plan shapes, dataset and windows of the fault-enumeration family (DESIGN Appendix A)

type faultShape struct {
	Query    string
	Opt      string
	Fallback bool
	Dist     bool // through the distributed engine over 2 partitions
	Big      bool // over bigFaultDataset()
}

var faultShapes = []faultShape{
	{Query: `m0`},
	{Query: `m0 offset 1m`},
	{Query: `m0 @ 3660`},
	{Query: `rate(m0[1m])`},
	{Query: `last_over_time(m0[1m])`},
	{Query: `abs(m0)`},
	{Query: `clamp_min(m0, 2)`},
	{Query: `sum(m0)`},
	{Query: `sum by (a) (m0)`},
	{Query: `quantile by (a) (0.5, m0)`},
	{Query: `topk(2, m0)`},
	{Query: `-m0`},
	{Query: `sum by (a) (-m0)`},
	{Query: `m0 + on(a,b) m0`},
	{Query: `m0 * on(a) group_left m1`},
	{Query: `m1 + on(a) group_right m0`},
	{Query: `m0 > 5`},
	{Query: `2 * m0`},
	{Query: `m0 > bool on(a,b) m0`},
	{Query: `sum by (a) (rate(m0[1m])) / on(a) m1`},
	{Query: `max(sum by (a) (m0))`},
	{Query: `sum(m0) / on() sum(m1)`},
	{Query: `histogram_quantile(0.9, h_bucket)`},
	{Query: `histogram_quantile(0.9, rate(h_bucket[1m]))`},
	{Query: `histogram_quantile(0.9, m0)`}, // no series is a bucket: nothing comes out, the operand is read all the same
	{Query: `m0{a="x"} + on(a,b) m0`, Opt: "default"},
	// a pinned selector below a vectorised aggregation: nothing asks it for its series before its first batch
	{Query: `sum(m0 @ 3660 + on(a) group_left m1)`},
	{Query: `count(m1 > bool on(a) group_right m0 @ end())`},
	// included labels on a comparison that keeps the metric name: the output label sets are built from the many side's
	{Query: `m0 > on(a) group_left(Z) m1`},
	{Query: `m1 < on(a) group_right(Z) m0`},
	// scalar() loads its operand lazily (in Next, not Series) and turns "no single sample" into NaN:
	// a failure below it must not be answered with NaN
	{Query: `m0 * scalar(m1{a="x"})`},
	{Query: `clamp_max(m0, scalar(sum(m1)))`},
	{Query: `vector(scalar(m1{a="x"}))`},
	{Query: `scalar(m1{a="x"})`},
	{Query: `histogram_quantile(scalar(m1{a="x"}) / 100, h_bucket)`},
	// more than 1024 series per shard (2200 series of m2 over 2 or 8 shards): size thresholds in loaders
	// grouping lists that cover every label of an input series: the output label set equals the input's,
	// and a label builder hands back its base slice unchanged
	{Query: `sum by (__name__, a, b, Z) (m0)`},
	// ... for some input series only (those without Z), followed by series that do lose a label
	// (h_bucket{a,le} sorts before m0{a,b}: covered series first, then series that lose b)
	{Query: `sum by (__name__, a, le) ({__name__=~"h_bucket|m0"})`},
	{Query: `topk by (__name__, a, le) (1, {__name__=~"h_bucket|m0"})`},
	{Query: `count_over_time(m2[1m])`, Big: true},
	{Query: `sum(m2)`, Big: true},
	{Query: `sum by (a) (m0)`, Dist: true},
	{Query: `m0`, Dist: true},
	{Query: `max(sum by (a) (m0))`, Dist: true},
	{Query: `sort_desc(m0)`, Fallback: true},
	{Query: `m0 and on(a) m1`, Fallback: true},
	{Query: `max_over_time(m0[2m:30s])`, Fallback: true},
}

const (
	faultStart  = int64(3_600_000)
	faultStep   = int64(30_000)
	faultNSteps = 35
)

func faultWindow(instant bool) Window {
	if instant {
		return Window{StartMs: faultStart + 20*faultStep, EndMs: faultStart + 20*faultStep}
	}
	return Window{StartMs: faultStart, EndMs: faultStart + int64(faultNSteps-1)*faultStep, StepMs: faultStep}
}

func faultDataset() Dataset {
	var d Dataset
	end := faultStart + int64(faultNSteps-1)*faultStep
	mk := func(ls map[string]string, from, to int64, inc float64, hole bool) {
		var sm []Sample
		v := 1.0
		for t := from; t <= to; t += 15_000 {
			if hole && t > faultStart+8*faultStep && t < faultStart+22*faultStep {
				if t == faultStart+8*faultStep+15_000 {
					sm = append(sm, Sample{T: t, V: StaleNaN})
				}
				continue
			}
			sm = append(sm, Sample{T: t, V: v})
			v += inc
		}
		d.Series = append(d.Series, Series{Labels: ls, Samples: sm})
	}
	i := 0
	for _, a := range []string{"x", "y"} {
		for _, b := range []string{"x", "y", "z"} {
			to := end + 60_000
			if i == 1 {
				to = faultStart + 12*faultStep
			}
			ls := map[string]string{"__name__": "m0", "a": a, "b": b}
			if i == 3 || i == 4 {
				ls["Z"] = "q" // an upper-case label name sorts before __name__
			}
			mk(ls, faultStart-600_000, to, float64(i+1), i == 2)
			i++
		}
	}
	for _, a := range []string{"x", "y"} {
		mk(map[string]string{"__name__": "m1", "a": a}, faultStart-600_000, faultStart+12*faultStep, 2, false)
	}
	for _, a := range []string{"x", "y"} {
		for k, le := range []string{"1", "5", "+Inf"} {
			mk(map[string]string{"__name__": "h_bucket", "a": a, "le": le}, faultStart-600_000, end+60_000, float64(k+1), false)
		}
	}
	d.Normalize()
	return d
}

// bigFaultDataset: faultDataset plus 2200 series of m2 with three samples each inside the window, so
// that a selector shard holds more than 1024 series at GOMAXPROCS 4 (2 shards: 1100 each); at 16 (8
// shards) 275 each.
func bigFaultDataset() Dataset {
	d := faultDataset()
	for i := 0; i < 2200; i++ {
		t0 := faultStart + int64(i%30)*faultStep
		d.Series = append(d.Series, Series{Labels: map[string]string{"__name__": "m2", "a": fmt.Sprintf("v%04d", i)},
			Samples: []Sample{{T: t0 - 15_000, V: float64(i)}, {T: t0, V: float64(i + 1)}, {T: t0 + 15_000, V: float64(i + 2)}}})
	}
	d.Normalize()
	return d
}

// splitDataset partitions series round-robin for the distributed shapes.
func splitDataset(d Dataset, n int) []Dataset {
	out := make([]Dataset, n)
	for i, s := range d.Series {
		out[i%n].Series = append(out[i%n].Series, s)
	}
	return out
}

// ---------------------------------------------------------------------------------------------

type faultProp struct {
	id    string
	kinds []string
}

func (p *faultProp) ID() string     { return p.id }
func (p *faultProp) BatchSize() int { return 60 }
func (p *faultProp) Rule() string {
	base := "case = (plan shape, instant|35-step window, GOMAXPROCS 4|16, fault kind, fault address); the address is the n-th call of a storage callback kind (Querier, Select, series-set, Labels, Iterator, Seek, Next, At, querier Close) on a series of a select, taken from a fault-free calibration run of the same case (quick: addresses drawn by the seeded PRNG; thorough: all addresses in order); non-trivial iff the injected fault actually fired; distinct by (shape, window, procs, kind, address)"
	switch p.id {
	case "C13":
		return base + "; kinds: panic with a runtime.Error, an error value, a string, on native and fallback plans; preceded by a fault-free grid of hostile parameters x 5 degenerate datasets compared with the reference"
	case "C14":
		return base + "; kinds: cancel (callback returns), block (callback waits for its context), error, panic, none, and hook-cancel (the cancellation arrives at the n-th visit of a goroutine hand-off point, n from the calibration's visit count); for 5 of 7 cancel/block cases the cancellation is Cancel()/Close()/double Cancel() of the query object from another goroutine, optionally after an early Cancel() before Exec; followed by race-build rounds of Cancel/Close racing Exec"
	case "C15":
		return base + "; kinds: plain storage error and an error that also wraps context.DeadlineExceeded; a quarter of the cases inject a second fault at another address"
	case "C17":
		return base + "; kinds: none, error, panic, cancel (context or query object, incl. while queriers are being closed), and sequences of queries over one shared store"
	}
	return base
}

const faultSeqMax = 2600 // upper bound of addresses per (shape, window, procs) explored sequentially in thorough

func (p *faultProp) combos() int { return len(faultShapes) * 2 * 2 }

func (p *faultProp) hostileCases() int {
	if p.id != "C13" {
		return 0
	}
	return len(hostileQueries()) * len(hostileDatasets) * 2
}

func (p *faultProp) NumCases(tier string) int {
	if tier == "thorough" {
		return p.hostileCases() + p.combos()*len(p.kinds)*400
	}
	return p.hostileCases() + p.combos()*len(p.kinds)*30
}

// hostile-parameter grid of C13 (no faults): extreme parameters on degenerate data must come back
// as the query's error or value, never as a dead process.
var hostileDatasets = []string{"full", "empty", "single-sample", "all-nan", "odd-buckets"}

func hostileQueries() []string {
	var qs []string
	ks := []string{"0", "-1", "NaN", "Inf", "-Inf", "1e19", "0.5", "1.9", "100", "9223372036854775808", "9223372036854774784", "-9223372036854775808", "-9223372036854777856", "scalar(m1)", "scalar(nosuch)", "time() - time()", "-0"}
	for _, op := range []string{"topk", "bottomk"} {
		for _, k := range ks {
			qs = append(qs, fmt.Sprintf("%s(%s, m0)", op, k), fmt.Sprintf("%s by (a) (%s, m0)", op, k), fmt.Sprintf("sum(%s(%s, m0))", op, k), fmt.Sprintf("%s(%s, rate(m0[1m]))", op, k))
		}
	}
	phis := []string{"-1", "2", "NaN", "Inf", "-Inf", "0", "1", "0.5", "scalar(nosuch)", "scalar(m1)"}
	for _, phi := range phis {
		qs = append(qs, fmt.Sprintf("quantile(%s, m0)", phi), fmt.Sprintf("quantile by (a) (%s, m0)", phi), fmt.Sprintf("quantile without (b) (%s, -m0)", phi),
			fmt.Sprintf("histogram_quantile(%s, h_bucket)", phi), fmt.Sprintf("histogram_quantile(%s, rate(h_bucket[1m]))", phi))
	}
	qs = append(qs, "clamp(m0, 5, 1)", "clamp(m0, NaN, 1)", "clamp_min(m0, NaN)", "clamp_max(m0, scalar(nosuch))", "m0 / 0", "m0 % 0", "0 / m0", "sqrt(-m0)", "ln(m0 - m0)",
		"topk(1, m0) + on(a, b) topk(0, m0)", "stddev(m0 * Inf)", "avg(m0 * 1e308)", "sum(m0) / sum(nosuch)", "m0 @ 0", "m0 offset 100h", "rate(m0[1ms])",
		"max_over_time(m0[1ms])", "nosuch", "sum(nosuch)", "-nosuch", "nosuch + nosuch", "histogram_quantile(0.5, nosuch)", "scalar(nosuch) + 1", "vector(NaN)", "topk(1, vector(NaN))",
		"histogram_quantile(0.5, h_bucket)", "histogram_quantile(0.9, sum by (le) (h_bucket))", "sum by (a) (histogram_quantile(0.5, h_bucket))", "histogram_quantile(0.5, m0)",
		"histogram_quantile(1, rate(h_bucket[1m]))", "m0 + on(nosuch) group_left m1", "count(m0) by (nosuch)", "sum without (a, b, __name__) (m0)", "deriv(m0[15s])", "irate(m0[15s])", "changes(m0[1s])")
	return qs
}

func hostileDataset(kind string) Dataset {
	switch kind {
	case "empty":
		return Dataset{}
	case "single-sample":
		d := faultDataset()
		for i := range d.Series {
			if len(d.Series[i].Samples) > 40 {
				d.Series[i].Samples = d.Series[i].Samples[40:41]
			}
		}
		return d
	case "odd-buckets":
		// histograms whose buckets collapse: two spellings of +Inf only, one bucket only, unparsable bounds
		d := faultDataset()
		for i := range d.Series {
			if d.Series[i].Labels["__name__"] != "h_bucket" {
				continue
			}
			switch d.Series[i].Labels["le"] {
			case "1":
				if d.Series[i].Labels["a"] == "x" {
					d.Series[i].Labels["le"] = "Inf"
				} else {
					d.Series[i].Labels["le"] = "bogus"
				}
			case "5":
				d.Series[i].Labels["le"] = "+Inf"
				if d.Series[i].Labels["a"] == "y" {
					d.Series[i].Labels["le"] = "5.0"
				}
			case "+Inf":
				if d.Series[i].Labels["a"] == "x" {
					d.Series[i].Labels["le"] = "inf"
				} else {
					d.Series[i].Labels["le"] = "5"
				}
			}
		}
		d.Normalize()
		return d
	case "all-nan":
		d := faultDataset()
		for i := range d.Series {
			for k := range d.Series[i].Samples {
				d.Series[i].Samples[k].V = math.NaN()
			}
		}
		return d
	}
	return faultDataset()
}

func (p *faultProp) checkHostile(c Case) Outcome {
	var o Outcome
	ctx := context.Background()
	eng := RunEngine(ctx, NewStore(c.Dataset, StoreOpts{}), c.Engine, c.Query, c.Window)
	ref := RunReference(ctx, NewStore(c.Dataset, StoreOpts{}), c.Engine, c.Query, c.Window)
	o.NonTrivial = !ref.CreateErr
	o.Count("hostile_parameter_cases", 1)
	if d := Compare(eng.Res, ref.Res); d != nil {
		var tmp Outcome
		if Excuse(c, eng.Res, ref.Res, d, &tmp) == "" && !usesAvoided(c.Query) {
			o.Add("hostile:"+d.Rule, fmt.Sprintf("%s\n  engine:    %s\n  reference: %s", d.Detail, eng.Res, ref.Res))
		}
	}
	// the same query through a distributed engine whose endpoint list is empty (every partition is
	// gone) or has one member: creation and execution must come back with a value or an error; a
	// panic on the caller's goroutine (plan construction runs outside Exec's recover) is a crash.
	for _, n := range []int{0, 1} {
		func() {
			defer func() {
				if r := recover(); r != nil {
					o.Add("hostile:panic-escaped", fmt.Sprintf("distributed engine over %d endpoints: panic reached the caller: %v", n, r))
				}
			}()
			parts := make([]storage.Queryable, n)
			for i := range parts {
				parts[i] = NewStore(c.Dataset, StoreOpts{})
			}
			RunDistributedOver(ctx, NewStore(c.Dataset, StoreOpts{}), parts, c.Engine, c.Query, c.Window, nil)
			o.Count("hostile_distributed_endpoint_cases", 1)
		}()
	}
	p.bystander(Case{Dataset: faultDataset(), Engine: c.Engine}, &o)
	return o
}

func (p *faultProp) Gen(seed uint64, tier string, i int) Case {
	if h := p.hostileCases(); i < h {
		qs := hostileQueries()
		q := qs[i%len(qs)]
		rest := i / len(qs)
		dk := hostileDatasets[rest%len(hostileDatasets)]
		instant := (rest/len(hostileDatasets))%2 == 1
		return Case{Prop: p.id, Kind: "hostile", Seed: seed, Index: i, Query: q, Window: faultWindow(instant), Dataset: hostileDataset(dk),
			Engine: EngineCfg{Opt: "none", Fallback: true, Procs: []int{4, 16}[i%2]}, Extra: map[string]any{"dataset": dk}}
	} else {
		i -= h
	}
	r := NewRng(seed, PropNum(p.id), uint64(i))
	combo := i % p.combos()
	slot := i / p.combos()
	shape := combo % len(faultShapes)
	rest := combo / len(faultShapes)
	instant := rest%2 == 1
	procs := []int{4, 16}[(rest/2)%2]
	kind := p.kinds[slot%len(p.kinds)]
	sh := faultShapes[shape]
	c := Case{Prop: p.id, Kind: "fault", Seed: seed, Index: i, Query: sh.Query, Window: faultWindow(instant), Dataset: faultDataset()}
	if sh.Big {
		c.Dataset = bigFaultDataset()
	}
	c.Engine = EngineCfg{Opt: sh.Opt, Fallback: sh.Fallback, Procs: procs}
	if p.id == "C17" {
		c.Engine.Debug = r.P(0.25)
	}
	if c.Engine.Opt == "" {
		c.Engine.Opt = "none"
	}
	if sh.Dist {
		c.NParts = 2
	}
	c.Extra = map[string]any{"fault_kind": kind, "pick": float64(r.Uint64() % (1 << 50)), "shape": float64(shape)}
	if (p.id == "C14" || p.id == "C17") && (kind == "cancel" || kind == "block") {
		if api := Pick(r, []string{"", "", "cancel", "close", "cancel2", "early-cancel", "early-close"}); api != "" {
			c.Extra["api"] = api
		}
	}
	if tier == "thorough" {
		c.Extra["seq"] = float64(slot / len(p.kinds))
	}
	c.Store.PerturbSeed = 0
	return c
}

// ---------------------------------------------------------------------------------------------

type faultRun struct {
	Out        ExecOut
	Report     StoreReport
	Final      StoreReport   // ledger re-read after the engine's goroutines have ended
	Reports    []StoreReport // per partition for distributed
	Pristine   []string
	Leaked     []string
	ExecReturn bool
	Panicked   string // panic that escaped Exec onto the harness goroutine
	HookVisits int64  // visits of the engine's goroutine hand-off points (hook 2) during the run
	HookFired  string // site[id] at which a hook-cancel was delivered
}

var errCallsByKind = map[string][]string{
	"err":           {"Querier", "Select", "SS.Next", "Seek", "Next"},
	"err-deadline":  {"Querier", "Select", "SS.Next", "Seek", "Next"},
	"panic-runtime": {"Querier", "Select", "SS.Next", "SS.At", "SS.Err", "Labels", "Iterator", "Seek", "Next", "At"},
	"panic-error":   {"Querier", "Select", "SS.Next", "Labels", "Iterator", "Seek", "Next", "At"},
	"panic-string":  {"Querier", "Select", "SS.Next", "SS.Err", "Labels", "Iterator", "Seek", "Next", "At"},
	"cancel":        {"Querier", "Select", "SS.Next", "SS.At", "SS.Err", "Labels", "Iterator", "Seek", "Next", "At", "Close"},
	"block":         {"Querier", "Select", "SS.Next", "Seek", "Next"},
}

// execFaulted runs the case once with the given faults (possibly none) on fresh stores.
func execFaulted(c Case, faults []Fault, extCancelAfterBlock bool) faultRun {
	return execFaultedPart(c, faults, -1)
}

// execFaultedPart: for distributed shapes the faults apply to partition faultPart only.
func execFaultedPart(c Case, faults []Fault, faultPart int) (fr faultRun) {
	ctx, cancel := context.WithCancel(context.Background())
	defer cancel()
	opts := c.Store
	opts.Faults = faults
	var stores []*Store
	// hook-cancel: the cancellation is delivered at the hookAt-th visit of a goroutine hand-off point
	// (worker send/work/output, exchange send/recv, coalesce merge), i.e. between two engine goroutines
	// rather than inside a storage callback. Visits are counted in every run (calibration included).
	hookAt := int64(0)
	if v, ok := c.Extra["hook_cancel_at"].(float64); ok {
		hookAt = int64(v)
	}
	var hookN atomic.Int64
	var hookFired atomic.Value
	if !raceBuild {
		perturbMu.Lock()
		verifhook.Callback = func(site string, id int) {
			if k := hookN.Add(1); hookAt > 0 && k == hookAt {
				hookFired.Store(fmt.Sprintf("%s[%d]", site, id))
				cancel()
				for _, s := range stores {
					s.MarkCancelled()
				}
			}
		}
		defer func() {
			fr.HookVisits = hookN.Load()
			if s, ok := hookFired.Load().(string); ok {
				fr.HookFired = s
			}
			verifhook.Callback = nil
			perturbMu.Unlock()
		}()
	}
	// api != "": the cancellation does not come through the context given to Exec but through the
	// query object, from another goroutine: cancel | close | cancel2 (twice), optionally preceded by
	// an "early-" Cancel() issued before Exec has started (a no-op that must not disarm later calls)
	api, _ := c.Extra["api"].(string)
	var qobj promql.Query
	var qmu sync.Mutex
	if api != "" {
		ctx = WithQueryObserver(ctx, func(q promql.Query) {
			if strings.HasPrefix(api, "early-") {
				q.Cancel()
			}
			qmu.Lock()
			qobj = q
			qmu.Unlock()
		})
	}
	var apiOnce sync.Once
	var closeClaimed atomic.Bool
	claimClose := func() bool { return closeClaimed.CompareAndSwap(false, true) }
	if api != "" {
		ctx = WithCloseClaim(ctx, claimClose)
	}
	mkStore := func(d Dataset) *Store {
		so := opts
		if faultPart >= 0 && len(stores) != faultPart {
			so.Faults = nil
		}
		st := NewStore(d, so)
		st.CancelFn = func() {
			// cancel first, mark afterwards: only callbacks issued after the cancellation is certainly
			// visible are counted as post-cancel work (conservative for the promptness bound)
			if api != "" {
				apiOnce.Do(func() {
					go func() {
						qmu.Lock()
						q := qobj
						qmu.Unlock()
						switch strings.TrimPrefix(api, "early-") {
						case "close":
							if claimClose() {
								q.Close()
							}
						case "cancel2":
							q.Cancel()
							q.Cancel()
						default:
							q.Cancel()
						}
						for _, s := range stores {
							s.MarkCancelled()
						}
					}()
				})
				return
			}
			cancel()
			for _, s := range stores {
				s.MarkCancelled()
			}
		}
		stores = append(stores, st)
		return st
	}
	done := make(chan struct{})
	go func() {
		defer close(done)
		defer func() {
			if r := recover(); r != nil {
				fr.Panicked = fmt.Sprint(r)
			}
		}()
		if c.NParts > 0 {
			var parts []storage.Queryable
			for _, d := range splitDataset(c.Dataset, c.NParts) {
				parts = append(parts, mkStore(d))
			}
			fr.Out = RunDistributedOver(ctx, mkStore(c.Dataset), parts, c.Engine, c.Query, c.Window, func(p int32) {
				for _, s := range stores {
					s.Phase.Store(p)
				}
			})
		} else {
			fr.Out = RunEngine(ctx, mkStore(c.Dataset), c.Engine, c.Query, c.Window)
		}
	}()
	select {
	case <-done:
		fr.ExecReturn = true
	case <-time.After(60 * time.Second):
		// watchdog; the caller decides what it means (quiescence test)
	}
	if fr.ExecReturn {
		for _, s := range stores {
			fr.Reports = append(fr.Reports, s.Report())
			fr.Pristine = append(fr.Pristine, s.VerifyPristine()...)
		}
		fr.Report = mergeReports(fr.Reports)
		EngineGoroutines(2 * time.Second)
		var fin []StoreReport
		for _, s := range stores {
			fin = append(fin, s.Report())
		}
		fr.Final = mergeReports(fin)
	}
	return fr
}

func mergeReports(rs []StoreReport) StoreReport {
	m := StoreReport{Counts: map[string]int{}, CallTotal: map[string]int{}, PostCancel: map[string]int{}}
	for pi, r := range rs {
		m.Selects = append(m.Selects, r.Selects...)
		for _, q := range r.Queriers {
			q.ID += pi * 100000
			m.Queriers = append(m.Queriers, q)
		}
		for k, v := range r.Counts {
			m.Counts[fmt.Sprintf("p%d:%s", pi, k)] += v
		}
		for k, v := range r.CallTotal {
			m.CallTotal[k] += v
		}
		for k, v := range r.PostCancel {
			m.PostCancel[k] += v
		}
		m.Fired = append(m.Fired, r.Fired...)
	}
	return m
}

// EngineGoroutines returns the stacks of goroutines that carry an engine frame (after giving
// them time to finish). Harness frames (module verifharness) do not count.
func EngineGoroutines(wait time.Duration) []string {
	deadline := time.Now().Add(wait)
	for {
		g := scanGoroutines()
		if len(g) == 0 || time.Now().After(deadline) {
			return g
		}
		time.Sleep(5 * time.Millisecond)
	}
}

func scanGoroutines() []string {
	buf := make([]byte, 4<<20)
	buf = buf[:runtime.Stack(buf, true)]
	var out []string
	for _, g := range strings.Split(string(buf), "\n\n") {
		if strings.Contains(g, "github.com/thanos-community/promql-engine/") || strings.Contains(g, "prometheus/promql.") {
			if strings.Contains(g, "verifharness/h.scanGoroutines") {
				continue
			}
			out = append(out, g)
		}
	}
	return out
}

// addressesOf flattens a calibration report into the sorted list of (address, nth) pairs for the
// calls a fault kind may hit.
type addrN struct {
	Addr string
	N    int
}

func addressesOf(rep StoreReport, kind string) []addrN {
	allowed := map[string]bool{}
	for _, cl := range errCallsByKind[kind] {
		allowed[cl] = true
	}
	var keys []string
	for k := range rep.Counts {
		keys = append(keys, k)
	}
	sort.Strings(keys)
	var out []addrN
	for _, k := range keys {
		kk := k
		if i := strings.Index(kk, ":"); i >= 0 && strings.HasPrefix(kk, "p") && i <= 3 {
			kk = kk[i+1:]
		}
		call, _, _ := ParseAddr(kk)
		if !allowed[call] {
			continue
		}
		for n := 1; n <= rep.Counts[k]; n++ {
			out = append(out, addrN{k, n})
		}
	}
	return out
}

func faultFor(a addrN, kind string) (Fault, int) {
	part := 0
	k := a.Addr
	if i := strings.Index(k, ":"); i >= 0 && strings.HasPrefix(k, "p") && i <= 3 {
		fmt.Sscanf(k[:i], "p%d", &part)
		k = k[i+1:]
	}
	call, sel, series := ParseAddr(k)
	return Fault{Kind: kind, Call: call, SelKey: sel, Series: series, Nth: a.N}, part
}

var calibCache sync.Map // case key -> calib

type calib struct {
	run faultRun
}

func calibrate(c Case) faultRun {
	key := fmt.Sprintf("%s|%v|%d|%v|%v|%d", c.Query, c.Window, c.Engine.Procs, c.Engine.Fallback, c.Engine.Opt, c.NParts)
	if v, ok := calibCache.Load(key); ok {
		return v.(faultRun)
	}
	fr := execFaulted(c, nil, false)
	calibCache.Store(key, fr)
	return fr
}

// pickFault chooses the fault of the case from the calibration (deterministic).
func pickFault(c Case, cal faultRun) (Fault, int, int, bool) {
	kind, _ := c.Extra["fault_kind"].(string)
	if len(c.Store.Faults) > 0 { // committed witness: explicit fault
		part := 0
		if p, ok := c.Extra["fault_part"].(float64); ok {
			part = int(p)
		}
		return c.Store.Faults[0], part, 1, true
	}
	if kind == "none" || kind == "" {
		return Fault{}, 0, 0, false
	}
	addrs := addressesOf(cal.Report, kind)
	if c.Engine.Fallback && strings.HasPrefix(kind, "panic") && OpenFindings["F05"] && c.Finding == "" {
		// open finding F05: the fallback path does not recover panics raised by Querier()/Select()
		kept := addrs[:0:0]
		for _, a := range addrs {
			f, _ := faultFor(a, kind)
			if f.Call != "Querier" && f.Call != "Select" {
				kept = append(kept, a)
			}
		}
		addrs = kept
	}
	if len(addrs) == 0 {
		return Fault{}, 0, 0, false
	}
	idx := -1
	if s, ok := c.Extra["seq"].(float64); ok {
		if int(s) >= len(addrs) {
			return Fault{}, 0, len(addrs), false
		}
		idx = int(s)
	} else {
		pick, _ := c.Extra["pick"].(float64)
		idx = int(uint64(pick) % uint64(len(addrs)))
	}
	f, part := faultFor(addrs[idx], kind)
	return f, part, len(addrs), true
}

// injectedSurfaced: does err carry the injected failure?
func injectedSurfaced(err error) bool {
	if err == nil {
		return false
	}
	if errors.Is(err, ErrInjected) {
		return true
	}
	var es promql.ErrStorage
	if errors.As(err, &es) && errors.Is(es.Err, ErrInjected) {
		return true
	}
	return false
}

func isCtxErr(err error) bool {
	return classify(err) == "context"
}

func (p *faultProp) Check(c Case) Outcome {
	var o Outcome
	if c.Kind == "cancel-race" {
		return p.checkCancelRace(c)
	}
	if c.Kind == "hostile" {
		return p.checkHostile(c)
	}
	cal := calibrate(c)
	if !cal.ExecReturn || cal.Out.Res.Err != nil {
		o.Skipped = fmt.Sprintf("calibration run did not succeed: returned=%v err=%v", cal.ExecReturn, cal.Out.Res.Err)
		if !cal.ExecReturn {
			o.Add("hang", "fault-free run did not return within the watchdog")
		}
		return o
	}
	kind, _ := c.Extra["fault_kind"].(string)
	hookAt := int64(0)
	if kind == "hook-cancel" {
		if cal.HookVisits == 0 {
			o.Skipped = "the plan passes no hook point"
			return o
		}
		pick, _ := c.Extra["pick"].(float64)
		hookAt = 1 + int64(uint64(pick)%uint64(cal.HookVisits))
		o.Count("hook_visits_in_calibration", cal.HookVisits)
	}
	f, part, naddr, ok := pickFault(c, cal)
	o.Count("addresses_in_calibration", int64(naddr))
	var faults []Fault
	if ok {
		faults = []Fault{f}
		if (p.id == "C15" || p.id == "C13") && len(c.Store.Faults) == 0 {
			// a quarter of the cases: a second fault at another address (pairs of faults, e.g. on two shards)
			if pick, _ := c.Extra["pick"].(float64); uint64(pick)%4 == 0 {
				addrs := addressesOf(cal.Report, kind)
				if len(addrs) > 1 {
					f2, _ := faultFor(addrs[(uint64(pick)/4)%uint64(len(addrs))], kind)
					if f2 != f {
						faults = append(faults, f2)
						o.Count("fault_pairs", 1)
					}
				}
			}
		}
	} else if kind == "sequence" {
		return p.checkSequence(c)
	} else if kind != "none" && kind != "hook-cancel" {
		o.Skipped = "no such fault address"
		return o
	}
	if c.NParts == 0 {
		part = -1
	}
	before := len(scanGoroutines())
	c2 := c
	c2.Store.Faults = nil
	if hookAt > 0 {
		c2.Extra = map[string]any{"hook_cancel_at": float64(hookAt)}
	}
	fr := execFaultedPart(c2, faults, part)
	fired := len(fr.Report.Fired) > 0
	if kind == "hook-cancel" {
		fired = fr.HookFired != ""
		f = Fault{Kind: kind, Call: fr.HookFired, Nth: int(hookAt)}
	}
	if fired {
		o.NonTrivial = true
		o.Count("faults_fired", 1)
		o.Tag(fmt.Sprintf("addr:%s|%s|%s|%d|%v", c.Query, kind, f.Call, f.Nth, c.Window.Instant()))
		o.Identity = fmt.Sprintf("%s|%v|%d|%d|%s|%s|%s|%d|%d", c.Query, c.Window.Instant(), c.Engine.Procs, c.NParts, kind, f.Call, f.SelKey, f.Series, f.Nth)
		o.Tag("call:" + f.Call)
	} else if kind == "none" {
		o.NonTrivial = true
	} else {
		o.Count("faults_not_fired", 1)
	}
	desc := fmt.Sprintf("fault %+v fired=%v", f, fr.Report.Fired)
	if !fr.ExecReturn {
		dump := scanGoroutines()
		o.Add("hang", fmt.Sprintf("Exec did not return within 60s after %s\n%s", desc, strings.Join(dump, "\n\n")))
		return o
	}
	if fr.Panicked != "" {
		o.Add("panic-escaped", fmt.Sprintf("a panic escaped Exec onto the caller: %s (%s)", fr.Panicked, desc))
	}
	res := fr.Out.Res
	switch p.id {
	case "C13":
		if fired && res.Err == nil {
			o.Add("panic-swallowed", fmt.Sprintf("%s: Exec returned success %s", desc, res))
		}
		p.bystander(c, &o)
	case "C15":
		if fired && res.Err == nil {
			o.Add("error-swallowed", fmt.Sprintf("%s: Exec returned success %s", desc, res))
		} else if fired && !injectedSurfaced(res.Err) {
			o.Add("error-not-wrapped", fmt.Sprintf("%s: Result.Err does not wrap the injected error: %v", desc, res.Err))
		}
	case "C14":
		p.judgeCancel(c, kind, fired, fr, cal, desc, &o)
	case "C17":
		// judged below (ledger) for every outcome
	}
	if p.id == "C17" || p.id == "C14" {
		p.judgeLedger(c, fr, desc, &o, p.id == "C17")
	}
	if p.id == "C14" || p.id == "C13" {
		if leaked := EngineGoroutines(3 * time.Second); len(leaked) > 0 {
			// quiescence: a second look; identical set => nothing will ever end them
			time.Sleep(300 * time.Millisecond)
			again := scanGoroutines()
			if len(again) >= len(leaked) {
				o.Add("goroutine-leak", fmt.Sprintf("%d engine goroutine(s) alive after Exec returned and the query was closed (%s; %d before the run)\n%s", len(again), desc, before, strings.Join(again, "\n\n")))
			}
		}
		o.Count("leak_scans", 1)
	}
	return o
}

func (p *faultProp) bystander(c Case, o *Outcome) {
	by := Case{Query: `sum by (a) (m0)`, Window: faultWindow(false), Dataset: c.Dataset, Engine: EngineCfg{Opt: "none", Procs: c.Engine.Procs}}
	want := calibrate(by)
	got := execFaulted(by, nil, false)
	if d := Compare(got.Out.Res, want.Out.Res); d != nil {
		o.Add("bystander", fmt.Sprintf("a later query in the same process changed its result: %s", d.Detail))
	}
	o.Count("bystander_checks", 1)
}

func (p *faultProp) judgeCancel(c Case, kind string, fired bool, fr, cal faultRun, desc string, o *Outcome) {
	res := fr.Out.Res
	if kind == "cancel" || kind == "block" || kind == "hook-cancel" {
		if !fired {
			return
		}
		api, _ := c.Extra["api"].(string)
		switch {
		case res.Err == nil && strings.HasSuffix(api, "close"):
			// Another goroutine closed the query while the result was being read: the memory of a
			// fallback result is recycled by Close (reference behaviour), nothing to compare.
			o.Count("completed_despite_close", 1)
		case res.Err == nil:
			if d := Compare(res, cal.Out.Res); d != nil {
				o.Add("partial-success", fmt.Sprintf("%s: Exec returned success after cancellation with a result different from the full one: %s", desc, d.Detail))
			} else {
				o.Count("completed_despite_cancel", 1)
			}
		case !isCtxErr(res.Err):
			o.Add("non-context-error", fmt.Sprintf("%s: after cancellation Exec returned a non-context error: %v", desc, res.Err))
		default:
			o.Count("cancel_surfaced", 1)
		}
		// promptness in logical steps: storage work issued after the cancel became visible
		post := int64(0)
		for _, v := range fr.Report.PostCancel {
			post += int64(v)
		}
		total := int64(0)
		for _, v := range cal.Report.CallTotal {
			total += int64(v)
		}
		o.Count("post_cancel_callbacks", post)
		if !c.Window.Instant() && !c.Engine.Fallback && total > 400 {
			// A 35-step window is 4 batches. After the cancel every puller may finish the batch it is
			// in (plus one it was just about to start); running on to the end of the window is not
			// prompt. Judged only when the cancel came early, so that "to the end" is distinguishable.
			it := func(m map[string]int) int64 { return int64(m["Seek"] + m["Next"] + m["At"]) }
			postIt, allIt, calIt := it(fr.Report.PostCancel), it(fr.Report.CallTotal), it(cal.Report.CallTotal)
			pre := allIt - postIt
			if calIt > 0 {
				o.Tag(fmt.Sprintf("post-cancel-decile:%d", 10*postIt/(calIt+1)))
			}
			if calIt > 200 && pre*5 <= calIt && postIt*100 >= calIt*78 {
				o.Add("cancel-not-prompt", fmt.Sprintf("%s: cancelled after %d iterator callbacks, yet %d more were issued (the uncancelled run issues %d)", desc, pre, postIt, calIt))
			}
		}
	}
}

func (p *faultProp) judgeLedger(c Case, fr faultRun, desc string, o *Outcome, labels bool) {
	failed := fr.Out.Res.Err != nil
	multi := len(fr.Report.Queriers) >= 2
	// open finding F06: after a failure on one branch the sibling branches keep running for a while;
	// their queriers are closed late. Inside that class only "exactly once, eventually" is judged.
	lateOK := failed && multi && OpenFindings["F06"] && c.Finding == ""
	for _, q := range fr.Final.Queriers {
		switch {
		case q.Closes != 1:
			o.Add("querier-close-count", fmt.Sprintf("%s: querier #%d [%d,%d] closed %d times (at quiescence)", desc, q.ID, q.Mint, q.Maxt, q.Closes))
		case q.ClosePhase != 0 && !lateOK:
			o.Add("querier-late-close", fmt.Sprintf("%s: querier #%d closed after Exec had returned (result err=%v)", desc, q.ID, fr.Out.Res.Err))
		case q.ClosePhase != 0:
			o.Count("known_region_F06", 1)
		}
	}
	o.Count("queriers_checked", int64(len(fr.Final.Queriers)))
	if labels {
		for _, m := range fr.Pristine {
			o.Add("storage-labels-modified", fmt.Sprintf("%s: %s", desc, m))
		}
	}
}

// checkSequence (C17): several queries one after the other over ONE store that hands out the same
// label slices every time: every querier of every query closed exactly once before its Exec returned,
// storage labels untouched at the end, and each result equal to the one over a fresh store.
func (p *faultProp) checkSequence(c Case) Outcome {
	var o Outcome
	pick, _ := c.Extra["pick"].(float64)
	r := NewRng(uint64(pick), 1717)
	st := NewStore(c.Dataset, StoreOpts{})
	ctx := context.Background()
	n := 3 + r.Intn(4)
	for k := 0; k < n; k++ {
		sh := faultShapes[r.Intn(len(faultShapes))]
		if sh.Dist {
			sh = faultShapes[r.Intn(20)]
		}
		q := sh.Query
		if k == 0 {
			q = c.Query
		}
		cfg := EngineCfg{Opt: sh.Opt, Fallback: sh.Fallback, Procs: c.Engine.Procs, Debug: r.P(0.3)}
		w := faultWindow(r.P(0.3))
		st.Phase.Store(0)
		if r.P(0.4) {
			// a query that is created and closed but never executed opens no querier
			b0 := len(st.Report().Queriers)
			withProcs(cfg.Procs, func() {
				if cq, err := NewQuery(engine.New(engOpts(cfg, nil)), st, cfg, q, w); err == nil {
					cq.Close()
				}
			})
			EngineGoroutines(time.Second)
			if opened := len(st.Report().Queriers) - b0; opened != 0 {
				o.Add("querier-opened-without-exec", fmt.Sprintf("query %d of the sequence (`%s`, debug writer=%v): %d querier(s) opened for a query that was created and closed but never executed", k, q, cfg.Debug, opened))
				break
			}
			o.Count("created_never_executed", 1)
		}
		before := len(st.Report().Queriers)
		got := RunEngine(ctx, st, cfg, q, w)
		rep := st.Report()
		for _, qr := range rep.Queriers[before:] {
			if qr.Closes != 1 {
				o.Add("querier-close-count", fmt.Sprintf("query %d of the sequence (`%s`): querier #%d closed %d times", k, q, qr.ID, qr.Closes))
			} else if qr.ClosePhase != 0 {
				o.Add("querier-late-close", fmt.Sprintf("query %d of the sequence (`%s`): querier #%d closed after Exec had returned", k, q, qr.ID))
			}
		}
		o.Count("queriers_checked", int64(len(rep.Queriers)-before))
		fresh := RunEngine(ctx, NewStore(c.Dataset, StoreOpts{}), cfg, q, w)
		if d := Compare(got.Res, fresh.Res); d != nil {
			o.Add("sequence-result", fmt.Sprintf("query %d of the sequence (`%s`) over the shared store differs from the same query over a fresh store: %s", k, q, d.Detail))
			break
		}
		for _, m := range st.VerifyPristine() {
			o.Add("storage-labels-modified", fmt.Sprintf("after query %d of the sequence (`%s`): %s", k, q, m))
		}
		if len(o.Violations) > 0 {
			break
		}
	}
	o.Count("sequence_queries", int64(n))
	o.NonTrivial = true
	o.Identity = fmt.Sprintf("sequence|%s|%v", c.Query, pick)
	return o
}

func init() {
	Register(&faultProp{id: "C13", kinds: []string{"panic-runtime", "panic-error", "panic-string"}})
	Register(&faultProp{id: "C15", kinds: []string{"err", "err", "err-deadline"}})
	Register(&faultProp{id: "C14", kinds: []string{"cancel", "block", "err", "panic-runtime", "none", "hook-cancel", "hook-cancel"}})
	Register(&faultProp{id: "C17", kinds: []string{"none", "err", "panic-runtime", "cancel", "sequence"}})
}

// ---------------------------------------------------------------------------------------------
// race phase of C14: Cancel()/Close() from another goroutine racing with Exec, under -race

// RaceCases: number of extra rounds executed with the race-detector build.
func (p *faultProp) RaceCases(tier string) int {
	if p.id != "C14" {
		return 0
	}
	if tier == "thorough" {
		return 3000
	}
	return 240
}

func (p *faultProp) GenRace(seed uint64, tier string, i int) Case {
	r := NewRng(seed, 1400, uint64(i))
	sh := faultShapes[i%len(faultShapes)]
	if sh.Fallback && GlobalAvoid["cancel-race:fallback"] {
		sh = faultShapes[(i*7+3)%24] // a native shape instead (open finding F09)
	}
	c := Case{Prop: p.id, Kind: "cancel-race", Seed: seed, Index: 1_000_000 + i, Query: sh.Query, Window: faultWindow(r.P(0.2)), Dataset: faultDataset()}
	c.Engine = EngineCfg{Opt: sh.Opt, Fallback: sh.Fallback, Procs: Pick(r, []int{4, 8, 16})}
	if c.Engine.Opt == "" {
		c.Engine.Opt = "none"
	}
	if sh.Dist {
		c.NParts = 2
	}
	c.Extra = map[string]any{"rounds": float64(6), "rseed": float64(r.Uint64() % (1 << 50)), "use_close": r.P(0.3)}
	return c
}

func (p *faultProp) checkCancelRace(c Case) Outcome {
	var o Outcome
	rs, _ := c.Extra["rseed"].(float64)
	useClose, _ := c.Extra["use_close"].(bool)
	rounds := 6
	r := NewRng(uint64(rs), 14)
	so := StoreOpts{Pure: true, PerturbSeed: 1 + r.Uint64()%1000}
	full := calibrate(Case{Query: c.Query, Window: c.Window, Engine: c.Engine, NParts: c.NParts, Dataset: c.Dataset})
	old := setProcs(c.Engine.Procs)
	defer setProcs(old)
	cfg := c.Engine
	cfg.Procs = 0
	for k := 0; k < rounds; k++ {
		var eng QueryEngine
		var st storage.Queryable = NewStore(c.Dataset, so)
		if c.NParts > 0 {
			var engines []api.RemoteEngine
			for _, d := range splitDataset(c.Dataset, c.NParts) {
				engines = append(engines, engine.NewLocalEngine(engOpts(cfg, nil), NewStore(d, so)))
			}
			eng = engine.NewDistributedEngine(engOpts(cfg, nil), api.NewStaticEndpoints(engines))
		} else {
			eng = engine.New(engOpts(cfg, nil))
		}
		qry, err := NewQuery(eng, st, cfg, c.Query, c.Window)
		if err != nil {
			o.Skipped = "creation failed: " + err.Error()
			return o
		}
		spin := r.Intn(4000)
		done := make(chan Result, 1)
		go func() { done <- Canon(qry.Exec(context.Background())) }()
		go func() {
			x := 0
			for i := 0; i < spin; i++ { // a deterministic amount of work instead of a wall-clock delay
				x += i
			}
			_ = x
			if useClose {
				qry.Close()
			} else {
				qry.Cancel()
			}
		}()
		select {
		case res := <-done:
			o.Count("cancel_races", 1)
			switch {
			case res.Err == nil:
				if d := Compare(res, full.Out.Res); d != nil {
					o.Add("partial-success", fmt.Sprintf("round %d: Exec raced by Cancel returned success with a result different from the full one: %s", k, d.Detail))
					return o
				}
				o.Count("completed", 1)
			case !isCtxErr(res.Err) && full.Out.Res.Err != nil:
				o.Count("completed", 1) // the query fails by itself, cancelled or not
			case !isCtxErr(res.Err):
				o.Add("non-context-error", fmt.Sprintf("round %d: Exec raced by Cancel returned a non-context error: %v", k, res.Err))
				return o
			default:
				o.Count("cancelled", 1)
				o.NonTrivial = true
			}
		case <-time.After(60 * time.Second):
			o.Add("hang", fmt.Sprintf("round %d: Exec did not return within 60s after a concurrent Cancel\n%s", k, strings.Join(scanGoroutines(), "\n\n")))
			return o
		}
		qry.Close()
	}
	if leaked := EngineGoroutines(3 * time.Second); len(leaked) > 0 {
		time.Sleep(300 * time.Millisecond)
		if again := scanGoroutines(); len(again) >= len(leaked) {
			o.Add("goroutine-leak", fmt.Sprintf("%d engine goroutine(s) alive after cancelled queries were closed\n%s", len(again), strings.Join(again, "\n\n")))
		}
	}
	return o
}
