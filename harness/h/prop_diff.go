package h

import (
	"context"
	"fmt"
	"github.com/prometheus/prometheus/storage"
	"strings"
)

// diffProp is the reference-model differential monitor shared by C01..C06.
type diffProp struct {
	id       string
	focus    string
	depth    int
	quick    int
	thorough int
	extra    func(c Case, eng, ref ExecOut, o *Outcome) // property-specific extra oracle
	tune     func(r *Rng, c *Case, g *GenCfg)
	avoid    []string
	extreme  bool
}

func (p *diffProp) ID() string     { return p.id }
func (p *diffProp) BatchSize() int { return 400 }
func (p *diffProp) Rule() string {
	return "case = (dataset, query, window, lookback, query options, optimizer set, GOMAXPROCS) derived from splitmix64(seed, property, index); executed on the engine (fallback disabled; for 6% of the C06 cases through the distributed engine over 2 partitions) and on the pinned Prometheus engine over the same MonStore; non-trivial iff natively supported and the reference result is non-empty or an error; distinct by content hash"
}
func (p *diffProp) NumCases(tier string) int {
	if tier == "thorough" {
		return p.thorough
	}
	return p.quick
}

var optSets = []string{"none", "none", "default", "all", "sort", "merge", "prop"}
var procChoices = []int{1, 2, 3, 4, 5, 6, 7, 8, 9, 10, 11, 12, 13, 14, 15, 16}

func (p *diffProp) Gen(seed uint64, tier string, i int) Case {
	r := NewRng(seed, PropNum(p.id), uint64(i))
	c := Case{Prop: p.id, Kind: "diff", Seed: seed, Index: i}
	c.Window = GenWindow(r, true)
	c.Engine.LookbackMs = GenLookback(r)
	c.Engine.Procs = Pick(r, procChoices)
	c.Engine.Opt = "none"
	g := &GenCfg{Avoid: mergeAvoid(p.avoid...), MaxDepth: p.depth, Focus: p.focus, W: c.Window, Lookback: c.Engine.LookbackMs}
	g.Hostile = r.P(0.15)
	if p.extreme {
		g.Hostile, g.Extreme = r.P(0.5), true
	}
	genLookback := c.Engine.LookbackMs
	if p.id == "C01" {
		c.Engine.Opt = Pick(r, optSets)
	} else if r.P(0.35) {
		c.Engine.Opt = Pick(r, []string{"default", "default", "all"}) // the engine as it is configured by default
	}
	if (p.id == "C01" || p.id == "C02" || p.id == "C03") && r.P(0.2) {
		// per-query lookback delta (QueryOpts), different from the engine's
		c.Engine.QueryLookbackMs = Pick(r, []int64{1000, 30_000, 60_000, 120_000, 300_000, 420_001})
	} else if r.P(0.15) {
		c.Engine.EmptyQueryOpts = true // options given, but without a lookback delta: the engine's applies
	}
	if (p.id == "C06" || p.extreme) && r.P(0.06) {
		// scalars and functions behave the same when the plan is cut into remote executions
		c.NParts = 2
		c.Engine.Opt = "none"
	}
	if p.tune != nil {
		p.tune(r, &c, g)
	}
	if c.Engine.QueryLookbackMs != 0 {
		genLookback = c.Engine.QueryLookbackMs // lay samples out around the delta that is in force
	}
	c.Dataset = GenDataset(r.Fork(), c.Window, genLookback, 40, g.Hostile, g.on("hist") && r.P(0.3))
	c.Query = GenQuery(r.Fork(), g)
	if (p.id == "C01" || p.id == "C06" || p.extreme) && r.P(0.03) {
		// series that differ in the metric name only and take turns (A, B, or A, B, A again) under an
		// operator that drops the name: one output series assembled from several inputs
		for k := 0; k < 1+r.Intn(2); k++ {
			AddTwin(r, &c.Dataset, c.Window, genLookback, false, r.P(0.7))
		}
		c.Query = Pick(r, c07Twins)
		if r.P(0.15) {
			// the same for histograms: buckets of two metrics with equal labels
			AddHistogramTwins(r, &c.Dataset, c.Window, genLookback)
			c.Query = Pick(r, []string{`histogram_quantile(0.5, {__name__=~".+_bucket"})`, `histogram_quantile(0.9, rate({__name__=~"h_bucket|g_bucket"}[2m]))`,
				`histogram_quantile(0.5, {le=~".+"})`, `sum by (a) (histogram_quantile(0.5, {__name__=~".+_bucket"}))`})
		}
		c.Dataset.Normalize()
		if (p.id == "C06" || p.extreme) && r.P(0.3) {
			c.NParts = 2
			c.Engine.Opt = "none"
		}
	}
	for range c.Dataset.Series {
		if c.NParts > 0 {
			c.Parts = append(c.Parts, r.Intn(c.NParts))
		}
	}
	separateTwins(&c)
	return c
}

func shapeOf(q string) string {
	// coarse shape: strip digits and quoted strings
	var b strings.Builder
	inq := false
	for _, ch := range q {
		switch {
		case ch == '"':
			inq = !inq
			b.WriteRune(ch)
		case inq:
		case ch >= '0' && ch <= '9':
		default:
			b.WriteRune(ch)
		}
	}
	return b.String()
}

func (p *diffProp) Check(c Case) Outcome {
	var o Outcome
	if ok, err := NativeSupport(c.Query, c.Window); !ok {
		o.Skipped = "not native: " + fmt.Sprint(err)
		if cl := classify(err); cl != "unsupported" {
			// creation failed with a non-"unsupported" error: the reference must fail too
			ref := RunReference(context.Background(), NewStore(c.Dataset, c.Store), c.Engine, c.Query, c.Window)
			if ref.Res.Err == nil {
				o.Skipped = ""
				o.Add("error-mismatch", fmt.Sprintf("engine rejects the query at creation (%v), reference evaluates it: %s", err, ref.Res))
			}
		}
		return o
	}
	ctx := context.Background()
	var eng ExecOut
	if c.NParts > 0 {
		var parts []storage.Queryable
		for _, d := range partition(c) {
			parts = append(parts, NewStore(d, c.Store))
		}
		eng = RunDistributedOver(ctx, NewStore(c.Dataset, c.Store), parts, c.Engine, c.Query, c.Window, nil)
		o.Count("distributed_executions", 1)
	} else {
		eng = RunEngine(ctx, NewStore(c.Dataset, c.Store), c.Engine, c.Query, c.Window)
	}
	ref := RunReference(ctx, NewStore(c.Dataset, c.Store), c.Engine, c.Query, c.Window)
	o.Count("native", 1)
	if ref.Res.Err != nil {
		o.Count("ref_error", 1)
	}
	if ref.Res.Err != nil || len(ref.Res.Series) > 0 {
		o.NonTrivial = true
	}
	o.Tag(fmt.Sprintf("steps%%10=%d", c.Window.Steps()%10))
	o.Tag("shape:" + shapeOf(c.Query))
	var cand []Violation
	if d := Compare(eng.Res, ref.Res); d != nil {
		if Excuse(c, eng.Res, ref.Res, d, &o) == "" {
			cand = append(cand, Violation{d.Rule, fmt.Sprintf("%s\n  engine:    %s\n  reference: %s", d.Detail, eng.Res, ref.Res)})
		}
	}
	et, _ := ExprType(c.Query)
	for _, d := range WellFormed(eng.Res, c.Window, string(et)) {
		cand = append(cand, Violation{d.Rule, d.Detail})
	}
	if len(cand) > 0 && InKnownClass(c, &o) {
		return o // inside the input class of an open known finding: nothing about this result is judged
	}
	o.Violations = append(o.Violations, cand...)
	if p.extra != nil {
		p.extra(c, eng, ref, &o)
	}
	return o
}

func init() {
	Register(&diffProp{id: "C01", focus: "", depth: 4, quick: 30000, thorough: 600000})
	Register(&diffProp{id: "C02", focus: "selector", depth: 1, quick: 30000, thorough: 600000, extra: c02Extra})
	Register(&diffProp{id: "C03", focus: "rangefn", depth: 1, quick: 30000, thorough: 600000})
	Register(&diffProp{id: "C04", focus: "agg", depth: 2, quick: 30000, thorough: 600000})
	Register(&diffProp{id: "C05", focus: "binary", depth: 2, quick: 30000, thorough: 600000})
	Register(&diffProp{id: "C06", focus: "func", depth: 2, quick: 30000, thorough: 600000})
}
