package h

import (
	"crypto/sha1"
	"encoding/hex"
	"encoding/json"
	"sort"
	"sync"
)

// Case is one replayable unit of work of a property's check.
type Case struct {
	Prop    string         `json:"property"`
	Kind    string         `json:"kind"` // which monitor of the property handles it
	Seed    uint64         `json:"seed"`
	Index   int            `json:"index"`
	Query   string         `json:"query,omitempty"`
	Queries []string       `json:"queries,omitempty"`
	Window  Window         `json:"window"`
	Engine  EngineCfg      `json:"engine"`
	Store   StoreOpts      `json:"store"`
	Dataset Dataset        `json:"dataset"`
	Parts   []int          `json:"parts,omitempty"` // series -> partition (C10)
	NParts  int            `json:"nparts,omitempty"`
	Procs   []int          `json:"procs_list,omitempty"`
	Extra   map[string]any `json:"extra,omitempty"`
	Finding string         `json:"finding,omitempty"` // set on committed witnesses
	Race    bool           `json:"race,omitempty"`    // witness must be replayed with the race-detector build
}

// Hash identifies a case by content (not by seed/index).
func (c Case) Hash() string {
	cc := c
	cc.Seed, cc.Index, cc.Finding = 0, 0, ""
	b, _ := json.Marshal(cc)
	s := sha1.Sum(b)
	return hex.EncodeToString(s[:8])
}

// Violation is what a monitor reports.
type Violation struct {
	Rule   string `json:"rule"`
	Detail string `json:"detail"`
}

// Outcome of checking one case.
type Outcome struct {
	Violations   []Violation
	NonTrivial   bool
	Skipped      string // non-empty: case not applicable (e.g. not natively supported)
	Inconclusive string
	Counters     map[string]int64
	Tags         []string // coverage cells hit
	Identity     string   // if set: what makes this case distinct for the evidence count (default: content hash)
}

func (o *Outcome) Add(rule, detail string) {
	o.Violations = append(o.Violations, Violation{rule, detail})
}
func (o *Outcome) Count(k string, n int64) {
	if o.Counters == nil {
		o.Counters = map[string]int64{}
	}
	o.Counters[k] += n
}
func (o *Outcome) Tag(t string) { o.Tags = append(o.Tags, t) }

// Property is one property's check: a deterministic case list and a monitor.
type Property interface {
	ID() string
	// NumCases is the fixed case count of a tier.
	NumCases(tier string) int
	// Gen derives case i from the seed.
	Gen(seed uint64, tier string, i int) Case
	// Check runs the real engine on the case under the property's monitors.
	Check(c Case) Outcome
	// BatchSize is how many cases one child process handles.
	BatchSize() int
	// Rule describing non-triviality for the evidence file.
	Rule() string
}

var (
	registry   = map[string]Property{}
	registryMu sync.Mutex
)

func Register(p Property) {
	registryMu.Lock()
	defer registryMu.Unlock()
	registry[p.ID()] = p
}

func Lookup(id string) Property { return registry[id] }

func PropertyIDs() []string {
	var ids []string
	for k := range registry {
		ids = append(ids, k)
	}
	sort.Strings(ids)
	return ids
}
