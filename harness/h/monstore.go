package h

import (
	"context"
	"errors"
	"fmt"
	"math"
	"runtime"
	"sort"
	"strings"
	"sync"
	"sync/atomic"
	"time"

	"github.com/prometheus/prometheus/model/histogram"
	"github.com/prometheus/prometheus/model/labels"
	"github.com/prometheus/prometheus/storage"
	"github.com/prometheus/prometheus/tsdb/chunkenc"
)

// Fault describes one injected fault at a deterministic address: the Nth call of kind
// Call on series Series (store index; -1 = not series-bound) of the select SelKey.
type Fault struct {
	Kind   string `json:"kind"`    // err | panic-runtime | panic-error | panic-string | cancel | block
	Call   string `json:"call"`    // Querier | Select | SS.Next | SS.At | SS.Err | Labels | Iterator | Seek | Next | At | Err
	SelKey string `json:"sel_key"` // "" = any select
	Series int    `json:"series"`  // -1 = any
	Nth    int    `json:"nth"`     // 1-based
}

// StoreOpts switch MonStore's layers.
type StoreOpts struct {
	PermuteSeed  uint64  `json:"permute_seed,omitempty"`
	PruneToHints bool    `json:"prune_to_hints,omitempty"`
	NoTrim       bool    `json:"no_trim,omitempty"` // serve every stored sample, also outside the querier's [mint, maxt]
	Faults       []Fault `json:"faults,omitempty"`
	PerturbSeed  uint64  `json:"perturb_seed,omitempty"`
	Pure         bool    `json:"pure,omitempty"` // race-pure: no shared mutable monitor state
}

// ErrInjected is the sentinel wrapped by every injected storage error.
var ErrInjected = errors.New("monstore: injected storage failure")

type injectedErr struct {
	token string
	also  error // a second error the failure wraps (e.g. context.DeadlineExceeded of a store-side timeout)
}

func (e *injectedErr) Error() string { return "injected storage failure " + e.token }
func (e *injectedErr) Unwrap() []error {
	if e.also != nil {
		return []error{ErrInjected, e.also}
	}
	return []error{ErrInjected}
}

// SelectRec is one recorded Select call.
type SelectRec struct {
	QMint    int64    `json:"qmint"`
	QMaxt    int64    `json:"qmaxt"`
	Sort     bool     `json:"sort"`
	Start    int64    `json:"start"`
	End      int64    `json:"end"`
	Step     int64    `json:"step"`
	Func     string   `json:"func"`
	Grouping []string `json:"grouping"`
	By       bool     `json:"by"`
	Range    int64    `json:"range"`
	Matchers []string `json:"matchers"`
	NilHints bool     `json:"nil_hints,omitempty"`
}

// Key is the address component naming a select by content.
func (r SelectRec) Key() string {
	m := append([]string(nil), r.Matchers...)
	sort.Strings(m)
	return fmt.Sprintf("{%s}[%d,%d]s%d f=%s g=%s by=%v r=%d", strings.Join(m, ","), r.Start, r.End, r.Step, r.Func, strings.Join(r.Grouping, ";"), r.By, r.Range)
}

// QuerierRec is the ledger entry of one opened querier.
type QuerierRec struct {
	ID          int   `json:"id"`
	Mint        int64 `json:"mint"`
	Maxt        int64 `json:"maxt"`
	Closes      int   `json:"closes"`
	ClosePhase  int32 `json:"close_phase"` // phase at first close
	OpenPhase   int32 `json:"open_phase"`
	SelectCount int   `json:"selects"`
}

type mSeries struct {
	idx      int
	lset     labels.Labels // handed out as is (shared)
	pristine labels.Labels
	samples  []Sample
}

// Store is the instrumented storage.Queryable.
type Store struct {
	series []*mSeries
	opts   StoreOpts

	mu        sync.Mutex
	selects   []SelectRec
	queriers  []*QuerierRec
	counts    map[string]int // address -> calls
	fired     []string
	callTotal map[string]int

	Phase      atomic.Int32 // set by the harness: 0 before Exec returned, 1 after
	cancelled  atomic.Bool
	postCancel map[string]int
	inFlight   atomic.Int64
	CancelFn   func() // invoked by a "cancel" fault
}

// NewStore builds a store over a dataset.
func NewStore(d Dataset, o StoreOpts) *Store {
	st := &Store{opts: o, counts: map[string]int{}, callTotal: map[string]int{}, postCancel: map[string]int{}}
	for _, s := range d.Series {
		l := s.Lset()
		st.series = append(st.series, &mSeries{lset: l, pristine: l.Copy(), samples: s.Samples})
	}
	sort.SliceStable(st.series, func(i, j int) bool { return labels.Compare(st.series[i].pristine, st.series[j].pristine) < 0 })
	for i, s := range st.series {
		s.idx = i
	}
	return st
}

// Append adds samples/series between queries (C20). Not concurrent with queries.
func (st *Store) Append(s Series) {
	l := s.Lset()
	for _, e := range st.series {
		if labels.Equal(e.pristine, l) {
			e.samples = append(append([]Sample(nil), e.samples...), s.Samples...)
			sort.SliceStable(e.samples, func(i, j int) bool { return e.samples[i].T < e.samples[j].T })
			return
		}
	}
	st.series = append(st.series, &mSeries{lset: l, pristine: l.Copy(), samples: append([]Sample(nil), s.Samples...)})
	sort.SliceStable(st.series, func(i, j int) bool { return labels.Compare(st.series[i].pristine, st.series[j].pristine) < 0 })
	for i, e := range st.series {
		e.idx = i
	}
}

// WithFaults returns a view of the same series (same label slices, same samples) whose callbacks
// fail as described; counters and ledgers are the view's own.
func (st *Store) WithFaults(faults []Fault) *Store {
	o := st.opts
	o.Faults = faults
	v := &Store{opts: o, counts: map[string]int{}, callTotal: map[string]int{}, postCancel: map[string]int{}}
	v.series = st.series
	return v
}

// MarkCancelled tells the store that cancellation is now visible (C14 accounting).
func (st *Store) MarkCancelled() { st.cancelled.Store(true) }

// VerifyPristine reports series whose shared label slice was modified.
func (st *Store) VerifyPristine() []string {
	var out []string
	for _, s := range st.series {
		if len(s.lset) != len(s.pristine) {
			out = append(out, fmt.Sprintf("series %d: labels now %s, were %s", s.idx, s.lset, s.pristine))
			continue
		}
		for i := range s.lset {
			if s.lset[i] != s.pristine[i] {
				out = append(out, fmt.Sprintf("series %d: labels now %s, were %s", s.idx, s.lset, s.pristine))
				break
			}
		}
	}
	return out
}

// Snapshot of the recorder.
type StoreReport struct {
	Selects    []SelectRec
	Queriers   []QuerierRec
	Counts     map[string]int
	Fired      []string
	CallTotal  map[string]int
	PostCancel map[string]int
}

func (st *Store) Report() StoreReport {
	st.mu.Lock()
	defer st.mu.Unlock()
	r := StoreReport{Selects: append([]SelectRec(nil), st.selects...), Counts: map[string]int{}, CallTotal: map[string]int{}, PostCancel: map[string]int{}, Fired: append([]string(nil), st.fired...)}
	for _, q := range st.queriers {
		r.Queriers = append(r.Queriers, *q)
	}
	for k, v := range st.counts {
		r.Counts[k] = v
	}
	for k, v := range st.callTotal {
		r.CallTotal[k] = v
	}
	for k, v := range st.postCancel {
		r.PostCancel[k] = v
	}
	return r
}

func addr(call, selKey string, series int) string {
	return fmt.Sprintf("%s|%s|%d", call, selKey, series)
}

// ParseAddr splits an address produced by addr.
func ParseAddr(a string) (call, selKey string, series int) {
	p := strings.Split(a, "|")
	if len(p) < 3 {
		return a, "", -1
	}
	fmt.Sscanf(p[len(p)-1], "%d", &series)
	return p[0], strings.Join(p[1:len(p)-1], "|"), series
}

type faultAction int

const (
	actNone faultAction = iota
	actErr
	actBlock
)

// hit is called at the top of every storage callback. It counts, perturbs, and applies faults.
// It returns the action the callback must take itself (error / block); panics and cancels
// are performed here.
func (st *Store) hit(ctx context.Context, call, selKey string, series int, local *uint64) (faultAction, error) {
	if st.opts.Pure {
		if st.opts.PerturbSeed != 0 {
			*local++
			perturbDecide(st.opts.PerturbSeed, *local, uint64(series)+uint64(len(call)))
		}
		return actNone, nil
	}
	a := addr(call, selKey, series)
	st.mu.Lock()
	st.counts[a]++
	n := st.counts[a]
	st.callTotal[call]++
	if st.cancelled.Load() {
		st.postCancel[call]++
	}
	var f *Fault
	for i := range st.opts.Faults {
		ft := &st.opts.Faults[i]
		if ft.Call == call && ft.Nth == n && (ft.SelKey == "" || ft.SelKey == selKey) && (ft.Series < 0 || ft.Series == series) {
			f = ft
			st.fired = append(st.fired, fmt.Sprintf("%s@%s#%d", ft.Kind, a, n))
			break
		}
	}
	st.mu.Unlock()
	if st.opts.PerturbSeed != 0 {
		*local++
		perturbDecide(st.opts.PerturbSeed, *local, uint64(series)*31+uint64(len(call)))
	}
	if f == nil {
		return actNone, nil
	}
	tok := fmt.Sprintf("%s@%s#%d", f.Kind, a, n)
	switch f.Kind {
	case "err":
		return actErr, &injectedErr{token: tok}
	case "err-deadline":
		// the storage's own failure happens to be a deadline (a store-side timeout); the query's context is alive
		return actErr, &injectedErr{token: tok, also: context.DeadlineExceeded}
	case "panic-runtime":
		var arr []int
		idx := len(tok) // always out of range
		_ = arr[idx]
	case "panic-error":
		panic(&injectedErr{token: "panic " + tok})
	case "panic-string":
		panic("injected panic " + tok)
	case "cancel":
		if st.CancelFn != nil {
			st.CancelFn()
		}
		if call == "Close" {
			time.Sleep(3 * time.Millisecond) // let the other goroutine's Cancel/Close overlap with this Close
		}
		return actNone, nil
	case "block":
		// the callback blocks until its context is done; the harness cancels from outside
		if st.CancelFn != nil {
			go func() {
				time.Sleep(2 * time.Millisecond)
				st.CancelFn()
			}()
		}
		return actBlock, nil
	}
	return actNone, nil
}

func perturbDecide(seed, n, salt uint64) {
	x := NewRng(seed, n, salt).Uint64()
	switch {
	case x%8 == 0:
		runtime.Gosched()
	case x%37 == 1:
		time.Sleep(time.Duration(20+x%180) * time.Microsecond)
	}
}

// Querier implements storage.Queryable.
func (st *Store) Querier(ctx context.Context, mint, maxt int64) (storage.Querier, error) {
	var local uint64
	act, err := st.hit(ctx, "Querier", "", -1, &local)
	if act == actErr {
		return nil, err
	}
	if act == actBlock {
		<-ctx.Done()
		return nil, ctx.Err()
	}
	q := &mQuerier{st: st, ctx: ctx, mint: mint, maxt: maxt}
	if !st.opts.Pure {
		st.mu.Lock()
		q.rec = &QuerierRec{ID: len(st.queriers), Mint: mint, Maxt: maxt, OpenPhase: st.Phase.Load()}
		st.queriers = append(st.queriers, q.rec)
		st.mu.Unlock()
	}
	return q, nil
}

type mQuerier struct {
	st         *Store
	ctx        context.Context
	mint, maxt int64
	rec        *QuerierRec
}

func (q *mQuerier) LabelValues(string, ...*labels.Matcher) ([]string, storage.Warnings, error) {
	return nil, nil, nil
}
func (q *mQuerier) LabelNames(...*labels.Matcher) ([]string, storage.Warnings, error) {
	return nil, nil, nil
}

func (q *mQuerier) Close() error {
	if !q.st.opts.Pure {
		// an address like the others: a cancellation (or a Close of the query by another goroutine) can be
		// made to arrive while the engine is closing its queriers
		var local uint64
		q.st.hit(q.ctx, "Close", "", -1, &local)
	}
	if q.rec != nil {
		q.st.mu.Lock()
		if q.rec.Closes == 0 {
			q.rec.ClosePhase = q.st.Phase.Load()
		}
		q.rec.Closes++
		q.st.mu.Unlock()
	}
	return nil
}

func matchSeries(l labels.Labels, ms []*labels.Matcher) bool {
	for _, m := range ms {
		if !m.Matches(l.Get(m.Name)) {
			return false
		}
	}
	return true
}

func (q *mQuerier) Select(sortSeries bool, hints *storage.SelectHints, matchers ...*labels.Matcher) storage.SeriesSet {
	st := q.st
	rec := SelectRec{QMint: q.mint, QMaxt: q.maxt, Sort: sortSeries}
	lo, hi := q.mint, q.maxt
	if st.opts.NoTrim {
		lo, hi = math.MinInt64, math.MaxInt64
	}
	if hints != nil {
		rec.Start, rec.End, rec.Step, rec.Func, rec.By, rec.Range = hints.Start, hints.End, hints.Step, hints.Func, hints.By, hints.Range
		rec.Grouping = append([]string(nil), hints.Grouping...)
		if st.opts.PruneToHints {
			if hints.Start > lo {
				lo = hints.Start
			}
			if hints.End < hi {
				hi = hints.End
			}
		}
	} else {
		rec.NilHints = true
	}
	for _, m := range matchers {
		rec.Matchers = append(rec.Matchers, m.String())
	}
	selKey := ""
	if !st.opts.Pure {
		selKey = rec.Key()
		st.mu.Lock()
		st.selects = append(st.selects, rec)
		if q.rec != nil {
			q.rec.SelectCount++
		}
		st.mu.Unlock()
	}
	var local uint64
	act, err := st.hit(q.ctx, "Select", selKey, -1, &local)
	if act == actErr {
		return storage.ErrSeriesSet(err)
	}
	if act == actBlock {
		<-q.ctx.Done()
		return storage.ErrSeriesSet(q.ctx.Err())
	}
	var sel []*mSeries
	for _, s := range st.series {
		if matchSeries(s.pristine, matchers) {
			sel = append(sel, s)
		}
	}
	if st.opts.PermuteSeed == ^uint64(0) && !sortSeries {
		// the exact reverse of the sorted order: every pair of series changes places
		for i, j := 0, len(sel)-1; i < j; i, j = i+1, j-1 {
			sel[i], sel[j] = sel[j], sel[i]
		}
	} else if st.opts.PermuteSeed != 0 && !sortSeries {
		r := NewRng(st.opts.PermuteSeed, uint64(len(sel)))
		for i := len(sel) - 1; i > 0; i-- {
			j := r.Intn(i + 1)
			sel[i], sel[j] = sel[j], sel[i]
		}
	}
	return &mSeriesSet{q: q, selKey: selKey, sel: sel, i: -1, lo: lo, hi: hi}
}

type mSeriesSet struct {
	q      *mQuerier
	selKey string
	sel    []*mSeries
	i      int
	lo, hi int64
	err    error
	local  uint64
}

func (ss *mSeriesSet) Next() bool {
	if ss.err != nil {
		return false
	}
	act, err := ss.q.st.hit(ss.q.ctx, "SS.Next", ss.selKey, -1, &ss.local)
	if act == actErr {
		ss.err = err
		return false
	}
	if act == actBlock {
		<-ss.q.ctx.Done()
		ss.err = ss.q.ctx.Err()
		return false
	}
	ss.i++
	return ss.i < len(ss.sel)
}

func (ss *mSeriesSet) At() storage.Series {
	ss.q.st.hit(ss.q.ctx, "SS.At", ss.selKey, -1, &ss.local)
	s := ss.sel[ss.i]
	return &mSeriesView{ss: ss, s: s}
}

func (ss *mSeriesSet) Err() error {
	act, err := ss.q.st.hit(ss.q.ctx, "SS.Err", ss.selKey, -1, &ss.local)
	if act == actErr && ss.err == nil {
		ss.err = err
	}
	return ss.err
}
func (ss *mSeriesSet) Warnings() storage.Warnings { return nil }

type mSeriesView struct {
	ss    *mSeriesSet
	s     *mSeries
	local uint64
	mu    sync.Mutex
}

func (v *mSeriesView) Labels() labels.Labels {
	var local uint64
	v.ss.q.st.hit(v.ss.q.ctx, "Labels", v.ss.selKey, v.s.idx, &local)
	return v.s.lset
}

func (v *mSeriesView) Iterator() chunkenc.Iterator {
	var local uint64
	v.ss.q.st.hit(v.ss.q.ctx, "Iterator", v.ss.selKey, v.s.idx, &local)
	sm := v.s.samples
	lo := sort.Search(len(sm), func(i int) bool { return sm[i].T >= v.ss.lo })
	hi := sort.Search(len(sm), func(i int) bool { return sm[i].T > v.ss.hi })
	return &mIter{v: v, s: sm[lo:hi], i: -1}
}

type mIter struct {
	v     *mSeriesView
	s     []Sample
	i     int
	err   error
	local uint64
}

func (it *mIter) fault(call string) bool {
	st := it.v.ss.q.st
	act, err := st.hit(it.v.ss.q.ctx, call, it.v.ss.selKey, it.v.s.idx, &it.local)
	switch act {
	case actErr:
		it.err = err
		it.i = len(it.s)
		return true
	case actBlock:
		<-it.v.ss.q.ctx.Done()
		it.err = it.v.ss.q.ctx.Err()
		it.i = len(it.s)
		return true
	}
	return false
}

func (it *mIter) Next() chunkenc.ValueType {
	if it.err != nil {
		return chunkenc.ValNone
	}
	if it.fault("Next") {
		return chunkenc.ValNone
	}
	if it.i < len(it.s) {
		it.i++
	}
	if it.i >= len(it.s) {
		return chunkenc.ValNone
	}
	return chunkenc.ValFloat
}

func (it *mIter) Seek(t int64) chunkenc.ValueType {
	if it.err != nil {
		return chunkenc.ValNone
	}
	if it.fault("Seek") {
		return chunkenc.ValNone
	}
	if it.i < 0 {
		it.i = 0
	}
	for it.i < len(it.s) && it.s[it.i].T < t {
		it.i++
	}
	if it.i >= len(it.s) {
		return chunkenc.ValNone
	}
	return chunkenc.ValFloat
}

func (it *mIter) At() (int64, float64) {
	it.v.ss.q.st.hit(it.v.ss.q.ctx, "At", it.v.ss.selKey, it.v.s.idx, &it.local)
	if it.i < 0 || it.i >= len(it.s) {
		return 0, 0
	}
	return it.s[it.i].T, it.s[it.i].V
}
func (it *mIter) AtHistogram() (int64, *histogram.Histogram)           { return 0, nil }
func (it *mIter) AtFloatHistogram() (int64, *histogram.FloatHistogram) { return 0, nil }
func (it *mIter) AtT() int64 {
	if it.i < 0 || it.i >= len(it.s) {
		return 0
	}
	return it.s[it.i].T
}
func (it *mIter) Err() error { return it.err }
