package h

import (
	"regexp"

	"github.com/prometheus/prometheus/promql/parser"
)

var lastDetail string

func stillFails(p Property, c Case, rule string) bool {
	o := p.Check(c)
	for _, v := range o.Violations {
		if v.Rule == rule {
			lastDetail = v.Detail
			return true
		}
	}
	return false
}

var (
	reOffset = regexp.MustCompile(` offset -?[0-9a-z]+`)
	reAt     = regexp.MustCompile(` @ (start\(\)|end\(\)|[0-9.]+)`)
	reBool   = regexp.MustCompile(` bool`)
	reGroup  = regexp.MustCompile(` (by|without) \([^)]*\)`)
	reMatch  = regexp.MustCompile(`\{[^}]*\}`)
)

// queryCandidates proposes simpler queries: each node replaced by one of its children of the same
// type, modifiers removed. Invalid candidates are filtered by parsing.
func queryCandidates(q string) []string {
	expr, err := parser.ParseExpr(q)
	if err != nil {
		return nil
	}
	seen := map[string]bool{q: true}
	var out []string
	add := func(s string) {
		if seen[s] {
			return
		}
		seen[s] = true
		e2, err := parser.ParseExpr(s)
		if err != nil || e2.Type() != expr.Type() {
			return
		}
		out = append(out, s)
	}
	sub := func(n parser.Node) string {
		pr := n.PositionRange()
		if int(pr.Start) < 0 || int(pr.End) > len(q) || pr.Start >= pr.End {
			return ""
		}
		return q[pr.Start:pr.End]
	}
	parser.Inspect(expr, func(n parser.Node, _ []parser.Node) error {
		if n == nil {
			return nil
		}
		ne, ok := n.(parser.Expr)
		if !ok {
			return nil
		}
		pr := n.PositionRange()
		if int(pr.Start) < 0 || int(pr.End) > len(q) || pr.Start >= pr.End {
			return nil
		}
		for _, ch := range parser.Children(n) {
			ce, ok := ch.(parser.Expr)
			if !ok || ce.Type() != ne.Type() {
				continue
			}
			if s := sub(ch); s != "" {
				add(q[:pr.Start] + s + q[pr.End:])
			}
		}
		if ne.Type() == parser.ValueTypeScalar {
			if _, isLit := n.(*parser.NumberLiteral); !isLit {
				add(q[:pr.Start] + "1" + q[pr.End:])
			}
		}
		return nil
	})
	for _, re := range []*regexp.Regexp{reOffset, reAt, reBool, reGroup, reMatch} {
		for _, loc := range re.FindAllStringIndex(q, -1) {
			add(q[:loc[0]] + q[loc[1]:])
		}
	}
	return out
}

// Shrink greedily reduces a violating case while the same rule keeps failing.
func Shrink(p Property, c Case, rule string) (Case, string, bool) {
	budget := 400
	detail := ""
	switch c.Prop {
	case "C13", "C14", "C15", "C17", "C12", "C20":
		return c, "", false // fault addresses / histories are not shrunk
	}
	try := func(cand Case) bool {
		if budget <= 0 {
			return false
		}
		budget--
		if stillFails(p, cand, rule) {
			detail = lastDetail
			return true
		}
		return false
	}
	changed := false
	for progress := true; progress && budget > 0; {
		progress = false
		// query
		if c.Query != "" {
			for _, qs := range queryCandidates(c.Query) {
				if len(qs) >= len(c.Query) {
					continue
				}
				cand := c
				cand.Query = qs
				if try(cand) {
					c, progress, changed = cand, true, true
					break
				}
			}
		}
		// dataset: drop series
		for i := 0; i < len(c.Dataset.Series) && budget > 0; {
			cand := c
			cand.Dataset = Dataset{Series: append(append([]Series(nil), c.Dataset.Series[:i]...), c.Dataset.Series[i+1:]...)}
			if len(c.Parts) == len(c.Dataset.Series) {
				cand.Parts = append(append([]int(nil), c.Parts[:i]...), c.Parts[i+1:]...)
			}
			if try(cand) {
				c, progress, changed = cand, true, true
			} else {
				i++
			}
		}
		// dataset: drop sample halves / singles
		for i := range c.Dataset.Series {
			sm := c.Dataset.Series[i].Samples
			for chunk := len(sm) / 2; chunk >= 1 && budget > 0; chunk /= 2 {
				for s := 0; s+chunk <= len(sm) && budget > 0; {
					cand := c
					cand.Dataset = c.Dataset.Clone()
					ns := append(append([]Sample(nil), sm[:s]...), sm[s+chunk:]...)
					cand.Dataset.Series[i].Samples = ns
					if try(cand) {
						c, progress, changed = cand, true, true
						sm = ns
					} else {
						s += chunk
					}
				}
			}
		}
		// window
		if !c.Window.Instant() {
			for _, n := range []int{1, 2, 3, 11} {
				if n >= c.Window.Steps() {
					continue
				}
				cand := c
				cand.Window.EndMs = c.Window.StartMs + int64(n-1)*c.Window.StepMs
				if try(cand) {
					c, progress, changed = cand, true, true
					break
				}
			}
			cand := c
			cand.Window = Window{StartMs: c.Window.EndMs, EndMs: c.Window.EndMs}
			if try(cand) {
				c, progress, changed = cand, true, true
			}
		}
		// config
		if c.Engine.Opt != "none" && c.Engine.Opt != "" && c.Prop != "C09" {
			cand := c
			cand.Engine.Opt = "none"
			if try(cand) {
				c, progress, changed = cand, true, true
			}
		}
		if c.Engine.Procs != 2 && c.Engine.Procs != 0 {
			cand := c
			cand.Engine.Procs = 2
			if try(cand) {
				c, progress, changed = cand, true, true
			}
		}
		if c.Engine.LookbackMs != 0 {
			cand := c
			cand.Engine.LookbackMs = 0
			if try(cand) {
				c, progress, changed = cand, true, true
			}
		}
	}
	return c, detail, changed
}
