package h

// InstallHooks wires the verif build-tag hooks of /repo to the harness monitors.
// The concrete callbacks are installed by the monitors that need them (see wrapper.go, perturb.go).
func InstallHooks() {}
