package h

import (
	"fmt"
	"github.com/prometheus/prometheus/model/value"
	"math"
	"regexp"
	"sort"
	"strings"
)

// GenCfg steers the random generators. Avoid holds features switched off because an open
// known finding lists them (KNOWN_FINDINGS.txt avoid=...), or because a property's domain
// excludes them.
type GenCfg struct {
	Avoid    map[string]bool
	MaxDepth int
	Focus    string // "" | selector | rangefn | agg | binary | func | scalar
	W        Window
	Lookback int64
	Hostile  bool // NaN/Inf values and hostile parameters
	Extreme  bool // literals of overflowing magnitude / denormals (C19's structural runs only: their sums depend on summation order)
}

func (g *GenCfg) on(f string) bool { return !g.Avoid[f] }

var (
	metricNames = []string{"m0", "m1"}
	labelNames  = []string{"a", "b", "c"}
	labelValues = []string{"x", "y", "z"}
)

// ---------------------------------------------------------------------------------------------
// windows

var stepChoices = []int64{1000, 7000, 15000, 30000, 30000, 45000, 60000, 60000, 61001, 100, 200, 300, 1500}
var stepCountChoices = []int{1, 2, 3, 5, 9, 10, 11, 12, 19, 20, 21, 22, 29, 30, 31, 35}

func GenWindow(r *Rng, allowInstant bool) Window {
	base := int64(3_600_000) + r.Int63n(40)*15_000
	if r.P(0.3) {
		base += r.Int63n(29_999) // unaligned
	}
	if r.P(0.02) {
		// around the epoch: evaluation times 0 and below are legal and hit sentinel values (T=-1, T=0)
		base = Pick(r, []int64{-1, -1, -1, 0, 1, -1000, -45_000, -300_001, -29_999, -1 - 30_000, -1 - 60_000})
	}
	if allowInstant && r.P(0.25) {
		return Window{StartMs: base, EndMs: base}
	}
	step := Pick(r, stepChoices)
	n := Pick(r, stepCountChoices)
	if r.P(0.25) {
		n = 1 + r.Intn(35)
	}
	if r.P(0.04) {
		n = Pick(r, []int{100, 121, 250})
	}
	end := base + int64(n-1)*step
	if r.P(0.3) {
		end += r.Int63n(step) // end not on the grid
	}
	return Window{StartMs: base, EndMs: end, StepMs: step}
}

var lookbackChoices = []int64{0, 0, 0, 300_000, 1000, 30_000, 60_000, 420_001}

func GenLookback(r *Rng) int64 { return Pick(r, lookbackChoices) }

func effLookback(lb int64) int64 {
	if lb == 0 {
		return 300_000
	}
	return lb
}

// ---------------------------------------------------------------------------------------------
// datasets

func genValue(r *Rng, hostile bool) float64 {
	if hostile && r.P(0.08) {
		return Pick(r, []float64{math.NaN(), math.Inf(1), math.Inf(-1), 0, math.Copysign(0, -1)})
	}
	switch r.Intn(4) {
	case 0:
		return float64(r.Intn(20))
	case 1:
		return float64(r.Intn(2000)-200) / 16
	case 2:
		return float64(r.Intn(7)) - 3
	}
	return float64(r.Intn(1000))
}

// GenSamples lays samples out relative to the window so that lookback and range-window
// boundaries are hit often.
func GenSamples(r *Rng, w Window, lookback int64, hostile bool) []Sample {
	L := effLookback(lookback)
	lo := w.StartMs - L - 420_000
	hi := w.EndMs + 180_000
	var out []Sample
	layout := r.Intn(10)
	interval := Pick(r, []int64{15_000, 30_000, 30_000, 60_000})
	from, to := lo, hi
	switch layout {
	case 0: // starts late
		from = w.StartMs + r.Int63n(w.EndMs-w.StartMs+60_000)
	case 1: // ends early
		to = w.StartMs + r.Int63n(w.EndMs-w.StartMs+60_000)
	case 2: // empty
		return nil
	case 3: // single sample
		return []Sample{{T: lo + r.Int63n(hi-lo), V: genValue(r, hostile)}}
	}
	counter := r.P(0.4)
	cur := float64(r.Intn(50))
	phase := r.Int63n(interval)
	for t := from - (from % interval) + phase; t <= to; t += interval {
		tt := t
		if layout == 4 || r.P(0.05) {
			tt += r.Int63n(2001) - 1000 // jitter
		}
		if layout == 5 && r.P(0.3) { // holes
			t += interval * int64(1+r.Intn(int(L/interval)+3))
			continue
		}
		var v float64
		if counter {
			if r.P(0.07) {
				cur = float64(r.Intn(3)) // reset
			} else {
				cur += float64(r.Intn(10))
			}
			v = cur
			if hostile && r.P(0.03) {
				v = genValue(r, true)
			}
		} else {
			v = genValue(r, hostile)
		}
		if r.P(0.03) {
			v = StaleNaN
		}
		out = append(out, Sample{T: tt, V: v})
	}
	// boundary-directed extras
	if w.Steps() > 0 && r.P(0.5) {
		k := int64(r.Intn(w.Steps()))
		tk := w.StartMs + k*maxi64(w.StepMs, 0)
		d := Pick(r, []int64{-1, 0, 1})
		off := Pick(r, []int64{L, L, 0, 60_000, 120_000, 61_000})
		t := tk - off + d
		v := genValue(r, hostile)
		if r.P(0.25) {
			v = StaleNaN
		}
		out = append(out, Sample{T: t, V: v})
		if r.P(0.3) {
			out = append(out, Sample{T: t + Pick(r, []int64{-1, 1, 2}), V: StaleNaN})
		}
	}
	if w.StepMs > 0 && w.Steps() > 12 && r.P(0.08) {
		// absent for exactly one of the engine's internal batches of 10 steps and back afterwards:
		// a staleness marker just before step 10j, nothing until after step 10j+9
		j := int64(1 + r.Intn((w.Steps()-1)/10))
		from, to := w.StartMs+10*j*w.StepMs-1, w.StartMs+(10*j+9)*w.StepMs
		kept := out[:0]
		for _, sm := range out {
			if sm.T < from || sm.T > to {
				kept = append(kept, sm)
			}
		}
		out = append(kept, Sample{T: from, V: StaleNaN})
	}
	sort.SliceStable(out, func(i, j int) bool { return out[i].T < out[j].T })
	dd := out[:0]
	for i, s := range out {
		if i > 0 && s.T == out[i-1].T {
			continue
		}
		dd = append(dd, s)
	}
	return dd
}

func maxi64(a, b int64) int64 {
	if a > b {
		return a
	}
	return b
}

// AddTwin gives one series of d a twin: the same labels under another metric name. With a
// hand-over inside the window the two never have a sample at the same step (legal after the name
// is dropped: one output series); overlapping, they are a duplicate label set wherever the name
// is dropped.
func AddTwin(r *Rng, d *Dataset, w Window, lookback int64, hostile, handover bool) {
	if len(d.Series) == 0 {
		return
	}
	si := r.Intn(len(d.Series))
	src := d.Series[si]
	name, ok := src.Labels["__name__"]
	if !ok || name == "h_bucket" {
		return
	}
	ls := map[string]string{}
	for k, v := range src.Labels {
		ls[k] = v
	}
	for _, m := range metricNames {
		if m != name {
			ls["__name__"] = m
			break
		}
	}
	tw := Series{Labels: ls}
	if handover && len(src.Samples) > 1 {
		// one hand-over (A then B), or two (A, B, A again) with staleness markers in between so that
		// the two never have a sample at the same step
		span := w.EndMs - w.StartMs + 1
		cut := w.StartMs + r.Int63n(span)
		back := int64(math.MaxInt64)
		if r.P(0.4) {
			back = cut + 1 + r.Int63n(span)
		}
		var keep []Sample
		lastOwner := 0
		for _, sm := range src.Samples {
			owner := 0
			if sm.T >= cut && sm.T < back {
				owner = 1
			}
			if owner != lastOwner && back != math.MaxInt64 {
				// the previous owner goes stale right before the other one takes over
				mark := Sample{T: sm.T - 1, V: StaleNaN}
				if lastOwner == 0 {
					keep = append(keep, mark)
				} else {
					tw.Samples = append(tw.Samples, mark)
				}
			}
			lastOwner = owner
			if owner == 0 {
				keep = append(keep, sm)
			} else {
				tw.Samples = append(tw.Samples, Sample{T: sm.T, V: sm.V + 1})
			}
		}
		if back == math.MaxInt64 && r.P(0.5) && len(keep) > 0 {
			keep = append(keep, Sample{T: keep[len(keep)-1].T + 1, V: StaleNaN})
		}
		d.Series[si].Samples = keep
	} else {
		tw.Samples = GenSamples(r, w, lookback, hostile)
	}
	d.Series = append(d.Series, tw)
}

// AddHistogramTwins adds two classic histograms, h_bucket and g_bucket, with the same labels: their
// buckets only differ in the metric name.
func AddHistogramTwins(r *Rng, d *Dataset, w Window, lookback int64) {
	base := GenSamples(r, w, lookback, false)
	for _, name := range []string{"h_bucket", "g_bucket"} {
		cum := 0.0
		for _, le := range []string{"1", "5", "+Inf"} {
			cum += float64(1 + r.Intn(5))
			sm := make([]Sample, len(base))
			for i, b := range base {
				v := b.V
				if v == v && !math.IsInf(v, 0) {
					v = math.Abs(v) + cum*float64(i+1)
				}
				sm[i] = Sample{T: b.T, V: v}
			}
			d.Series = append(d.Series, Series{Labels: map[string]string{"__name__": name, "le": le, "a": "x"}, Samples: sm})
		}
	}
}

// GenDataset: 0..maxSeries series over m0, m1 (labels a,b,c possibly absent) and, when
// withHist, a small classic histogram h_bucket.
func GenDataset(r *Rng, w Window, lookback int64, maxSeries int, hostile, withHist bool) Dataset {
	var d Dataset
	n := r.Intn(maxSeries + 1)
	if r.P(0.6) && n > 12 {
		n = r.Intn(13)
	}
	for i := 0; i < n; i++ {
		ls := map[string]string{"__name__": Pick(r, metricNames)}
		if r.P(0.03) {
			delete(ls, "__name__")
			ls["a"] = Pick(r, labelValues)
		}
		for _, ln := range labelNames {
			if r.P(0.62) {
				ls[ln] = Pick(r, labelValues)
				if hostile && r.P(0.15) {
					// a value that is a proper prefix of / extends another one, with labels after it: byte-wise
					// orders of encoded label sets disagree with labels.Compare here
					ls[ln] += Pick(r, []string{"0", "x", "1"})
				}
			}
		}
		if r.P(0.08) {
			ls["Z"] = Pick(r, labelValues) // upper-case names sort before __name__
		}
		sm := GenSamples(r, w, lookback, hostile)
		if hostile && r.P(0.12) {
			// a series of negative zeros: sums and averages over it are -0, not +0
			for k := range sm {
				if sm[k].V == sm[k].V {
					sm[k].V = math.Copysign(0, -1)
				}
			}
		} else if hostile && r.P(0.15) {
			// a series of (ordinary) NaNs: a member every ordering and reduction has to place somewhere
			for k := range sm {
				if !value.IsStaleNaN(sm[k].V) {
					sm[k].V = math.NaN()
				}
			}
		}
		d.Series = append(d.Series, Series{Labels: ls, Samples: sm})
	}
	if n > 0 && r.P(0.1) {
		AddTwin(r, &d, w, lookback, hostile, r.P(0.7))
	}
	if withHist {
		groups := 1 + r.Intn(2)
		for g := 0; g < groups; g++ {
			les := []string{"1", "5", "+Inf"}
			if r.P(0.2) {
				les = []string{"1", "5"}
			}
			if r.P(0.1) {
				les = append(les, "bogus")
			}
			cum := 0.0
			base := GenSamples(r, w, lookback, false)
			for _, le := range les {
				cum += float64(r.Intn(5))
				ls := map[string]string{"__name__": "h_bucket", "le": le}
				if groups > 1 || r.P(0.5) {
					ls["a"] = labelValues[g]
				}
				sm := make([]Sample, len(base))
				for i, b := range base {
					v := b.V
					if v == v && !math.IsInf(v, 0) {
						v = math.Abs(v) + cum*float64(i+1)
					}
					sm[i] = Sample{T: b.T, V: v}
				}
				d.Series = append(d.Series, Series{Labels: ls, Samples: sm})
			}
		}
		if r.P(0.3) {
			// a second histogram metric with the labels of the first
			for _, s := range d.Series {
				if s.Labels["__name__"] != "h_bucket" {
					continue
				}
				ls := map[string]string{}
				for k, v := range s.Labels {
					ls[k] = v
				}
				ls["__name__"] = "g_bucket"
				sm := make([]Sample, len(s.Samples))
				for i, x := range s.Samples {
					sm[i] = Sample{T: x.T, V: x.V * 2}
				}
				d.Series = append(d.Series, Series{Labels: ls, Samples: sm})
			}
		}
	}
	d.Normalize()
	return d
}

// ---------------------------------------------------------------------------------------------
// queries

var reOffsetMod = regexp.MustCompile(` offset -?[0-9a-z]+`)

type qgen struct {
	r *Rng
	g *GenCfg
	// noAt > 0 while generating an aggregation parameter: the pinned Prometheus version does not
	// wrap parameters into step-invariant nodes, so an @ modifier there is not pinned by the
	// reference engine itself (its result then depends on how much data the querier exposes).
	noAt int
}

func durStr(msv int64) string {
	if msv == 0 {
		return "0s"
	}
	neg := ""
	if msv < 0 {
		neg = "-"
		msv = -msv
	}
	var b strings.Builder
	b.WriteString(neg)
	if m := msv / 60_000; m > 0 {
		fmt.Fprintf(&b, "%dm", m)
		msv -= m * 60_000
	}
	if s := msv / 1000; s > 0 {
		fmt.Fprintf(&b, "%ds", s)
		msv -= s * 1000
	}
	if msv > 0 {
		fmt.Fprintf(&b, "%dms", msv)
	}
	return b.String()
}

func (q *qgen) matchers() string {
	r := q.r
	n := 0
	switch x := r.Intn(10); {
	case x < 5:
		n = 0
	case x < 8:
		n = 1
	default:
		n = 2
	}
	var ms []string
	for i := 0; i < n; i++ {
		ln := Pick(r, labelNames)
		op := Pick(r, []string{"=", "=", "!=", "=~", "!~"})
		val := Pick(r, labelValues)
		if r.P(0.12) {
			val = ""
		}
		if strings.HasSuffix(op, "~") {
			val = Pick(r, []string{"x|y", ".+", ".*", "y", "[xz]", ""})
		}
		ms = append(ms, fmt.Sprintf("%s%s%q", ln, op, val))
	}
	if len(ms) == 0 {
		return ""
	}
	return "{" + strings.Join(ms, ",") + "}"
}

func (q *qgen) modifiers() string {
	r, g := q.r, q.g
	s := ""
	if g.on("offset") && r.P(0.18) {
		off := Pick(r, []int64{1000, 15_000, 30_000, 60_000, 61_001, 300_000, 600_000})
		if g.on("neg-offset") && r.P(0.25) {
			off = -off
		}
		s += " offset " + durStr(off)
	}
	if g.on("at") && q.noAt == 0 && r.P(0.10) {
		switch x := r.Intn(5); {
		case x == 0 && g.on("at-start-end"):
			s += " @ start()"
		case x == 1 && g.on("at-start-end"):
			s += " @ end()"
		default:
			t := g.W.StartMs - 600_000 + r.Int63n(g.W.EndMs-g.W.StartMs+1_200_000)
			if t < 0 {
				t = 0
			}
			s += fmt.Sprintf(" @ %d.%03d", t/1000, t%1000)
		}
	}
	return s
}

func (q *qgen) metric() string {
	if q.g.on("hist") && q.r.P(0.04) {
		return "h_bucket"
	}
	if q.g.on("nameless-selector") && q.r.P(0.05) {
		return ""
	}
	return Pick(q.r, metricNames)
}

func (q *qgen) selector() string {
	m := q.metric()
	ms := q.matchers()
	if m == "" {
		ms = `{a=~".+"}`
		if q.r.P(0.5) {
			ms = `{__name__=~"m.*"}`
		}
	}
	return m + ms + q.modifiers()
}

var rangeFns = []string{"rate", "increase", "delta", "irate", "idelta", "deriv", "changes", "resets",
	"sum_over_time", "avg_over_time", "min_over_time", "max_over_time", "count_over_time", "last_over_time",
	"stddev_over_time", "stdvar_over_time", "present_over_time"}

func (q *qgen) rangeSel() string {
	r, g := q.r, q.g
	rng := Pick(r, []int64{30_000, 60_000, 60_000, 120_000, 300_000, 15_000, 45_000})
	if g.on("range:subsecond") && r.P(0.15) {
		rng = Pick(r, []int64{60_001, 1500, 90_500, 999})
	}
	if g.W.StepMs > 0 && r.P(0.2) {
		rng = g.W.StepMs * int64(1+r.Intn(3))
		if r.P(0.3) && g.on("range:subsecond") {
			rng += Pick(r, []int64{-1, 1})
		}
	}
	if rng <= 0 {
		rng = 1000
	}
	m := q.metric()
	ms := q.matchers()
	if m == "" {
		ms = `{a=~".+"}`
	}
	return fmt.Sprintf("%s%s[%s]%s", m, ms, durStr(rng), q.modifiers())
}

func (q *qgen) rangeFn() string {
	var fns []string
	for _, f := range rangeFns {
		if q.g.on("fn:" + f) {
			fns = append(fns, f)
		}
	}
	return fmt.Sprintf("%s(%s)", Pick(q.r, fns), q.rangeSel())
}

var simpleFns = []string{"abs", "ceil", "floor", "exp", "sqrt", "ln", "log2", "log10", "sin", "cos", "tan", "asin", "acos", "atan",
	"sinh", "cosh", "tanh", "asinh", "acosh", "atanh", "rad", "deg"}

func (q *qgen) instantFn(d int) string {
	r, g := q.r, q.g
	for tries := 0; tries < 8; tries++ {
		switch r.Intn(8) {
		case 0, 1, 2:
			f := Pick(r, simpleFns)
			if !g.on("fn:" + f) {
				continue
			}
			return fmt.Sprintf("%s(%s)", f, q.vector(d-1))
		case 3:
			if !g.on("fn:clamp_min") {
				continue
			}
			return fmt.Sprintf("%s(%s, %s)", Pick(r, []string{"clamp_min", "clamp_max"}), q.vector(d-1), q.scalar(d-1))
		case 4:
			if !g.on("fn:clamp") {
				continue
			}
			return fmt.Sprintf("clamp(%s, %s, %s)", q.vector(d-1), q.scalar(d-1), q.scalar(d-1))
		case 5:
			if !g.on("fn:timestamp") {
				continue
			}
			arg := q.vector(d - 1)
			if strings.Contains(arg, "@") && strings.Contains(arg, " offset ") {
				// Pinned Prometheus: for timestamp() over a selector with an @ modifier the evaluator
				// overwrites the selector's offset with (step - @) and thereby forgets a written
				// offset. The reference is not a usable oracle for that combination.
				arg = reOffsetMod.ReplaceAllString(arg, "")
			}
			return fmt.Sprintf("timestamp(%s)", arg)
		case 6:
			if !g.on("fn:vector") {
				continue
			}
			return fmt.Sprintf("vector(%s)", q.scalar(d-1))
		case 7:
			if !g.on("hist") || !g.on("fn:histogram_quantile") {
				continue
			}
			arg := "h_bucket" + q.matchers()
			if r.P(0.4) {
				arg = "rate(h_bucket[" + durStr(Pick(r, []int64{60_000, 120_000, 300_000})) + "])"
			}
			if r.P(0.2) {
				arg = q.vector(d - 1)
			}
			if g.on("nameless-selector") && r.P(0.12) {
				// the buckets of several histogram metrics at once (datasets with a second histogram g_bucket)
				arg = Pick(r, []string{`{__name__=~".+_bucket"}`, `{le=~".+"}`, `rate({__name__=~"h_bucket|g_bucket"}[2m])`})
			}
			return fmt.Sprintf("histogram_quantile(%s, %s)", q.phi(d-1), arg)
		}
	}
	return fmt.Sprintf("abs(%s)", q.vector(d-1))
}

func (q *qgen) phi(d int) string {
	if q.g.on("param:scalar") && q.r.P(0.2) {
		q.noAt++
		defer func() { q.noAt-- }()
		return q.scalar(d)
	}
	if q.g.Hostile && q.r.P(0.3) {
		return Pick(q.r, []string{"-1", "2", "NaN", "Inf", "0", "1"})
	}
	return Pick(q.r, []string{"0.5", "0.9", "0.99", "0", "1", "0.25"})
}

var aggOps = []string{"sum", "min", "max", "avg", "count", "group", "stddev", "stdvar", "quantile", "topk", "bottomk"}

func (q *qgen) grouping() string {
	r, g := q.r, q.g
	x := r.Intn(10)
	if x < 3 {
		return ""
	}
	n := r.Intn(4)
	var ls []string
	pool := append([]string{}, labelNames...)
	pool = append(pool, labelNames...)
	pool = append(pool, "Z") // sorts before every lower-case name and before __name__
	if g.on("group:name") {
		pool = append(pool, "__name__")
	}
	if g.on("group:le") {
		pool = append(pool, "le")
	}
	if g.on("group:absent") {
		pool = append(pool, "nolabel")
	}
	for i := 0; i < n; i++ {
		ls = append(ls, Pick(r, pool))
	}
	kw := "by"
	if g.on("agg:without") && r.P(0.35) {
		kw = "without"
	}
	return fmt.Sprintf(" %s (%s)", kw, strings.Join(ls, ", "))
}

func (q *qgen) agg(d int) string {
	r, g := q.r, q.g
	var ops []string
	for _, o := range aggOps {
		if g.on("agg:" + o) {
			ops = append(ops, o)
		}
	}
	op := Pick(r, ops)
	grp := q.grouping()
	if (op == "topk" || op == "bottomk") && grp != "" && !g.on("agg:topk-grouped") {
		grp = ""
	}
	param := ""
	switch op {
	case "topk", "bottomk":
		param = q.kparam(d - 1)
	case "quantile":
		param = q.phi(d - 1)
	}
	// The pinned Prometheus version decides whether an aggregation is step-invariant from its
	// operand alone and ignores the parameter: 'topk(scalar(x), y @ 10)' is evaluated once, with
	// the parameter of the first step. With a parameter that is not a constant the reference itself
	// then disagrees between range and instant evaluation, so no @ is generated in such operands.
	varying := strings.ContainsAny(param, "(abcdefghijklmnopqrstuvwxyz") && !strings.HasPrefix(param, "Inf") && !strings.HasPrefix(param, "-Inf") && param != "NaN"
	if varying {
		q.noAt++
		defer func() { q.noAt-- }()
	}
	arg := q.vector(d - 1)
	if varying {
		// ... and the operand must read a series (an all-literal operand is step-invariant as well)
		for tries := 0; tries < 5 && !strings.Contains(arg, "m0") && !strings.Contains(arg, "m1") && !strings.Contains(arg, "h_bucket"); tries++ {
			arg = q.vector(d - 1)
		}
		if !strings.Contains(arg, "m0") && !strings.Contains(arg, "m1") && !strings.Contains(arg, "h_bucket") {
			arg = "m0"
		}
	}
	if param != "" {
		return fmt.Sprintf("%s%s (%s, %s)", op, grp, param, arg)
	}
	return fmt.Sprintf("%s%s (%s)", op, grp, arg)
}

func (q *qgen) kparam(d int) string {
	r, g := q.r, q.g
	if g.on("param:scalar") && r.P(0.2) {
		q.noAt++
		defer func() { q.noAt-- }()
		return q.scalar(d)
	}
	if g.Hostile && g.on("param:hostile") && r.P(0.35) {
		return Pick(r, []string{"0", "-1", "NaN", "Inf", "-Inf", "1e19", "0.5", "1.9", "100",
			// the edges of the int64 range: 2^63 is the smallest k that overflows, 2^63-1024 the largest that does not
			"9223372036854775808", "9223372036854774784", "-9223372036854775808", "-9223372036854777856", "2 ^ 63"})
	}
	return Pick(r, []string{"1", "1", "2", "3", "5", "40"})
}

var arithOps = []string{"+", "-", "*", "/", "%", "^", "atan2"}
var cmpOps = []string{"==", "!=", ">", "<", ">=", "<="}

func (q *qgen) binop() (string, bool) {
	if q.r.P(0.45) && q.g.on("bin:cmp") {
		return Pick(q.r, cmpOps), true
	}
	var ops []string
	for _, o := range arithOps {
		if q.g.on("bin:" + o) {
			ops = append(ops, o)
		}
	}
	return Pick(q.r, ops), false
}

func (q *qgen) matching() string {
	r, g := q.r, q.g
	x := r.Intn(10)
	if x < 3 {
		return ""
	}
	n := r.Intn(3)
	var ls []string
	for i := 0; i < n; i++ {
		ls = append(ls, Pick(r, labelNames))
	}
	if r.P(0.06) {
		// the metric name as a matching label: groups then differ in something the operator may drop
		ls = append(ls, Pick(r, []string{"__name__", "__name__", "Z", "nolabel"}))
	}
	kw := "on"
	if g.on("bin:ignoring") && r.P(0.4) {
		kw = "ignoring"
	}
	if kw == "on" && !g.on("bin:on") {
		return ""
	}
	s := fmt.Sprintf(" %s (%s)", kw, strings.Join(ls, ", "))
	if g.on("bin:group") && r.P(0.45) {
		side := Pick(r, []string{"group_left", "group_right"})
		s += " " + side
		if g.on("bin:group-include") && r.P(0.4) {
			inc := Pick(r, labelNames)
			if r.P(0.2) {
				inc += ", " + Pick(r, []string{"Z", "a", "b", "c", "nolabel"})
			}
			s += fmt.Sprintf(" (%s)", inc)
		}
	}
	return s
}

func (q *qgen) vecBinary(d int) string {
	op, isCmp := q.binop()
	b := ""
	if isCmp && q.g.on("bin:bool") && q.r.P(0.4) {
		b = " bool"
	}
	l, r := q.vector(d-1), q.vector(d-1)
	if q.r.P(0.25) { // make matches likely: same operand
		r = l
	}
	return fmt.Sprintf("%s %s%s%s %s", l, op, b, q.matching(), r)
}

func (q *qgen) scalarBinary(d int) string {
	op, isCmp := q.binop()
	b := ""
	if isCmp && q.g.on("bin:bool") && q.r.P(0.4) {
		b = " bool"
	}
	if q.r.P(0.5) {
		return fmt.Sprintf("%s %s%s %s", q.vector(d-1), op, b, q.scalar(d-1))
	}
	return fmt.Sprintf("%s %s%s %s", q.scalar(d-1), op, b, q.vector(d-1))
}

func (q *qgen) vector(d int) string {
	r, g := q.r, q.g
	if d <= 0 {
		return q.selector()
	}
	for tries := 0; tries < 10; tries++ {
		switch x := r.Intn(20); {
		case x < 4:
			return q.selector()
		case x < 7:
			return q.rangeFn()
		case x < 10:
			return q.instantFn(d)
		case x < 13:
			return q.agg(d)
		case x < 15:
			if !g.on("bin:vector") {
				continue
			}
			return "(" + q.vecBinary(d) + ")"
		case x < 17:
			if !g.on("bin:scalar") {
				continue
			}
			return "(" + q.scalarBinary(d) + ")"
		case x < 18:
			if !g.on("unary") {
				continue
			}
			return "-" + q.vector(d-1)
		case x < 19:
			return "(" + q.vector(d-1) + ")"
		default:
			if !g.on("unary-plus") {
				continue
			}
			return "+" + q.vector(d-1)
		}
	}
	return q.selector()
}

func (q *qgen) literal() string {
	if q.g.Hostile && q.r.P(0.15) {
		if q.g.Extreme {
			return Pick(q.r, []string{"NaN", "Inf", "-Inf", "1e308", "5e-324", "-0", "-1e308"})
		}
		return Pick(q.r, []string{"NaN", "Inf", "-Inf", "-0", "1e6"})
	}
	return Pick(q.r, []string{"0", "1", "2", "3", "0.5", "10", "-1", "100", "1.5"})
}

func (q *qgen) scalar(d int) string {
	r, g := q.r, q.g
	if d <= 0 {
		return q.literal()
	}
	for tries := 0; tries < 10; tries++ {
		switch x := r.Intn(12); {
		case x < 5:
			return q.literal()
		case x < 6:
			if !g.on("fn:time") {
				continue
			}
			return "time()"
		case x < 7:
			if !g.on("fn:pi") {
				continue
			}
			return "pi()"
		case x < 9:
			if !g.on("fn:scalar") {
				continue
			}
			return fmt.Sprintf("scalar(%s)", q.vector(d-1))
		case x < 11:
			if !g.on("bin:scalar-scalar") {
				continue
			}
			op, isCmp := q.binop()
			b := ""
			if isCmp {
				b = " bool"
			}
			return fmt.Sprintf("(%s %s%s %s)", q.scalar(d-1), op, b, q.scalar(d-1))
		default:
			if !g.on("unary") {
				continue
			}
			return "-" + q.scalar(d-1)
		}
	}
	return q.literal()
}

// GenQuery produces one query string for the configured focus.
func leadingIdent(s string) string {
	i := 0
	for i < len(s) && (s[i] == '_' || s[i] == ':' || s[i] >= 'a' && s[i] <= 'z' || s[i] >= 'A' && s[i] <= 'Z' || i > 0 && s[i] >= '0' && s[i] <= '9') {
		i++
	}
	return s[:i]
}

var reRange = regexp.MustCompile(`\[[^\]]+\]`)
var reMetricUse = regexp.MustCompile(`\b(m[01]|h_bucket)\b`)

// GenQuery generates a query; a twelfth of the vector-typed ones additionally select the metric of
// one of their selectors a second time without matchers, which makes the default optimizers merge
// the selects (the narrower ones become in-engine filters over the broader one's series).
func GenQuery(r *Rng, g *GenCfg) string {
	out := genQuery(r, g)
	if !g.on("repeat-metric") || !r.P(0.08) {
		return out
	}
	name := reMetricUse.FindString(out)
	if t, err := ExprType(out); err != nil || string(t) != "vector" || name == "" {
		return out
	}
	return "(" + out + ") + on() group_left() 0 * count(" + name + ")"
}

func genQuery(r *Rng, g *GenCfg) string {
	q := &qgen{r: r, g: g}
	d := g.MaxDepth
	if d == 0 {
		d = 3
	}
	if r.P(0.5) && d > 1 {
		d--
	}
	switch g.Focus {
	case "selector":
		s := q.selector()
		if r.P(0.12) {
			// the same metric selected twice: the default optimizers merge the two selects and
			// evaluate the narrower one as a filter over the broader one's series
			if name := leadingIdent(s); name != "" {
				if r.P(0.5) {
					return s + " + 0 * " + name
				}
				return name + " * 0 + " + s
			}
		}
		switch r.Intn(6) {
		case 0:
			return "(" + s + ")"
		case 1:
			if g.on("unary-plus") {
				return "+" + s
			}
		}
		return s
	case "rangefn":
		f := q.rangeFn()
		if r.P(0.1) {
			// the same function over the same selector with another range: the two selects differ in
			// their start only
			other := durStr(Pick(r, []int64{15_000, 30_000, 60_000, 150_000, 300_000, 600_000}))
			f2 := reRange.ReplaceAllString(f, "["+other+"]")
			if r.P(0.5) {
				return f + " - " + f2
			}
			return f2 + " - " + f
		}
		return f
	case "agg":
		if r.P(0.04) {
			// a parameter that changes from step to step, over series that come and go
			q.noAt++ // the pinned reference ignores the parameter when it decides step invariance (DESIGN 8.11)
			sel := q.selector()
			q.noAt--
			return Pick(r, []string{
				"quantile((time() % 100) / 100, " + sel + ")", "quantile by (a) (scalar(sum(m1)) / 1000, " + sel + ")", "quantile by (a, b) ((time() % 7) / 7, " + sel + ")",
				"topk(1 + scalar(count(m1)) % 3, " + sel + ")", "bottomk by (a) (1 + time() % 2, " + sel + ")", "quantile(scalar(count(m1)) / 10, " + sel + ")"})
		}
		if r.P(0.05) {
			// the sign of a zero result is only visible through a division; grouping by every label
			// keeps a series of negative zeros in a group of its own
			if r.P(0.6) {
				return "1 / " + Pick(r, []string{"sum", "sum", "avg", "avg", "min", "max"}) + " by (a, b, c, Z) (" + q.selector() + ")"
			}
			return "1 / " + q.agg(d)
		}
		return q.agg(d)
	case "binary":
		if r.P(0.04) {
			// plain selectors of two metrics matched one-to-one on a label that one side also restricts
			l := Pick(r, labelNames)
			lhs := "m0{" + l + Pick(r, []string{"=", "!=", "=~"}) + `"` + Pick(r, labelValues) + `"}`
			rhs := "m1"
			if r.P(0.3) {
				rhs = "m1" + q.matchers()
			}
			if r.P(0.5) {
				lhs, rhs = rhs, lhs
			}
			op, _ := q.binop()
			kw := Pick(r, []string{"on (" + l + ")", "on (" + l + ")", "ignoring (" + Pick(r, labelNames) + ")", "on (" + l + ", " + Pick(r, labelNames) + ")"})
			return fmt.Sprintf("%s %s %s %s", lhs, op, kw, rhs)
		}
		if g.on("nameless-selector") && r.P(0.03) {
			// operands over several metric names matched on the name (and more): match groups that
			// differ in the name only meet again in the result when the operator drops it
			sels := []string{`{__name__=~"m0|m1"}`, `{__name__=~"m.*",a="x"}`, `{a=~".+"}`, `{__name__=~"m.*"}`, "m0", "m1"}
			op, isCmp := q.binop()
			b := ""
			if isCmp && r.P(0.4) {
				b = " bool"
			}
			on := Pick(r, []string{"__name__", "__name__, a", "__name__, a, b", "__name__, c", "a, __name__"})
			kw := Pick(r, []string{"on", "on", "on", "ignoring"})
			return fmt.Sprintf("%s %s%s %s (%s) %s", Pick(r, sels), op, b, kw, on, Pick(r, sels))
		}
		if r.P(0.7) {
			return q.vecBinary(d)
		}
		if r.P(0.8) {
			return q.scalarBinary(d)
		}
		return q.scalar(d)
	case "func":
		if g.on("unary") && r.P(0.04) {
			// the sign of a zero under a unary minus is only visible through a division (-(+0) is -0)
			return Pick(r, []string{"1 / -(time() - time())", "1 / -vector(0)", "1 / -" + q.selector(), "1 / -abs(" + q.selector() + ")",
				"-1 / -(" + q.selector() + " * 0)", "1 / -scalar(" + q.selector() + ")", "1 / (0 * -" + q.selector() + ")", "1 / -(-" + q.selector() + ")"})
		}
		if g.on("hist") && g.on("fn:histogram_quantile") && g.on("param:scalar") && r.P(0.02) {
			// a quantile that changes from step to step
			return Pick(r, []string{"histogram_quantile((time() % 100) / 100, h_bucket)", "histogram_quantile(scalar(sum(m1)) / 1000, rate(h_bucket[2m]))",
				"histogram_quantile((time() % 7) / 7, h_bucket" + q.matchers() + ")"})
		}
		switch r.Intn(10) {
		case 0, 1:
			return q.scalar(d)
		case 2:
			if g.on("unary") {
				return "-" + q.vector(d-1)
			}
		}
		return q.instantFn(d)
	case "scalar":
		return q.scalar(d)
	}
	if r.P(0.1) {
		return q.scalar(d)
	}
	return q.vector(d)
}
