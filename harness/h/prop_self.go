package h

import (
	"context"
	"fmt"
	"sort"
	"strings"

	"github.com/prometheus/prometheus/promql/parser"
	"github.com/prometheus/prometheus/storage"
)

// ---------------------------------------------------------------------------------------------
// C07: a range query equals the sequence of instant queries on its grid (engine vs itself)

type c07Prop struct{}

func (c07Prop) ID() string     { return "C07" }
func (c07Prop) BatchSize() int { return 150 }
func (c07Prop) Rule() string {
	return "case = (dataset, native query without start()/end(), range window); the engine's range result is compared, timestamp by timestamp, with the engine's own instant results on the grid (all steps up to 40, a seeded sample beyond) and with its own results over 2 sub-windows; non-trivial iff the range result is non-empty or an error; distinct by content hash"
}
func (c07Prop) NumCases(tier string) int {
	if tier == "thorough" {
		return 200000
	}
	return 6000
}

func (c07Prop) Gen(seed uint64, tier string, i int) Case {
	r := NewRng(seed, 7, uint64(i))
	c := Case{Prop: "C07", Kind: "range-vs-instants", Seed: seed, Index: i}
	c.Window = GenWindow(r, false)
	c.Engine.LookbackMs = GenLookback(r)
	c.Engine.Procs = Pick(r, procChoices)
	c.Engine.Opt = Pick(r, []string{"none", "none", "default", "all"})
	g := &GenCfg{Avoid: mergeAvoid("at-start-end"), MaxDepth: 3, W: c.Window, Lookback: c.Engine.LookbackMs}
	c.Dataset = GenDataset(r.Fork(), c.Window, c.Engine.LookbackMs, 24, false, r.P(0.2))
	c.Query = GenQuery(r.Fork(), g)
	if r.P(0.2) {
		// a lookback delta given with the query: the range query and the instant queries take it on
		// different entry points
		c.Engine.QueryLookbackMs = Pick(r, []int64{1000, 30_000, 60_000, 120_000, 420_001})
		if r.P(0.3) {
			c.Engine.QueryLookbackMs, c.Engine.EmptyQueryOpts = 0, true
		}
	}
	if r.P(0.04) {
		// the quantile of histogram_quantile changes from step to step
		AddHistogramTwins(r, &c.Dataset, c.Window, c.Engine.LookbackMs)
		c.Dataset.Normalize()
		c.Query = Pick(r, []string{`histogram_quantile((time() % 100) / 100, g_bucket)`, `histogram_quantile(scalar(sum(m1)) / 1000, rate(g_bucket[2m]))`,
			`histogram_quantile((time() % 7) / 7, g_bucket)`, `histogram_quantile(scalar(count(m0)) / 10, sum by (le) (g_bucket))`})
	} else if r.P(0.1) {
		// two series that differ in the metric name only and hand over inside the window, under
		// something that drops the name: one output series whose points come from both, whatever the
		// position of the hand-over inside the engine's batches
		for k := 0; k < 1+r.Intn(2); k++ {
			AddTwin(r, &c.Dataset, c.Window, c.Engine.LookbackMs, false, true)
		}
		c.Dataset.Normalize()
		c.Query = Pick(r, c07Twins)
	} else if r.P(0.08) {
		// parameters and scalar operands that change from step to step, over series that come and go:
		// whatever an operator keeps per position of its batch must be renewed for every batch
		c.Query = Pick(r, c07Params)
	}
	return c
}

var c07Params = []string{`quantile((time() % 100) / 100, m0)`, `quantile by (a) (scalar(sum(m1)) / 1000, m0)`, `topk(1 + scalar(count(m1)) % 3, m0)`,
	`clamp_min(m0, time() % 7)`, `m0 + time() % 11`, `bottomk by (a) (scalar(count(m0)) % 2 + 1, m1)`, `quantile(scalar(m1{a="x"}) / 100, m0)`, `scalar(sum(m0)) + scalar(count(m1))`,
	`vector(scalar(max(m0)))`, `scalar(sum(m0))`, `m0 > bool time() % 13`}

var c07Twins = []string{`abs({__name__=~"m.*"})`, `{__name__=~"m0|m1"} * 2`, `timestamp({__name__=~"m.+"})`, `sum by (a, b, c) (abs({__name__=~"m.*"}))`,
	`clamp_min({__name__=~"m.*"}, 0)`, `1 + {__name__=~"m.*"}`, `{__name__=~"m.*"} > bool 1`, `ceil(-{__name__=~"m.*"})`, `deg({__name__=~"m.*"}) + on(a, b, c) m0`,
	// an error that is due in a later batch of one operand, next to an operand that ends at once
	`abs(scalar(max_over_time({__name__=~"m.*"}[1m])) + histogram_quantile(0.5, m0{a="nosuch"}))`, `ceil(scalar(rate({__name__=~"m.*"}[2m])) <= histogram_quantile(0.9, rate(h_bucket[1m])))`,
	`abs(scalar(-{__name__=~"m.*"}) * m0{a="nosuch"})`,
	// a negation above an operator that has merged the equal label sets already
	`topk(5, -{__name__=~"m.*"})`, `bottomk(3, -({__name__=~"m.*"}))`, `topk(2, abs({__name__=~"m.*"}))`, `max(-{__name__=~"m.*"})`,
	`-abs({__name__=~"m.*"})`, `-({__name__=~"m.*"} * 2)`, `-timestamp({__name__=~"m.+"})`, `-clamp_max({__name__=~"m.*"}, 100)`, `sum by (a) (-deg({__name__=~"m.*"}))`}

// atTime extracts the samples of a canonical result at time t as a vector-typed result.
func atTime(res Result, t int64) Result {
	out := Result{Type: "vector"}
	for _, s := range res.Series {
		for _, p := range s.Points {
			if p.T == t {
				out.Series = append(out.Series, RSeries{Labels: s.Labels, Points: []RPoint{p}})
			}
		}
	}
	return out
}

func asVector(res Result) Result {
	if res.Type == "scalar" {
		return Result{Type: "vector", Series: res.Series, Err: res.Err}
	}
	return res
}

func restrict(res Result, w Window) Result {
	out := Result{Type: res.Type, Err: res.Err}
	for _, s := range res.Series {
		ns := RSeries{Labels: s.Labels}
		for _, p := range s.Points {
			if p.T >= w.StartMs && p.T <= w.EndMs {
				ns.Points = append(ns.Points, p)
			}
		}
		if len(ns.Points) > 0 {
			out.Series = append(out.Series, ns)
		}
	}
	return out
}

func (c07Prop) Check(c Case) Outcome {
	var o Outcome
	if ok, err := NativeSupport(c.Query, c.Window); !ok {
		o.Skipped = "not native: " + fmt.Sprint(err)
		return o
	}
	ctx := context.Background()
	rng := RunEngine(ctx, NewStore(c.Dataset, c.Store), c.Engine, c.Query, c.Window)
	o.NonTrivial = rng.Res.Err != nil || len(rng.Res.Series) > 0
	steps := c.Window.Steps()
	idx := make([]int, 0, steps)
	if steps <= 40 {
		for k := 0; k < steps; k++ {
			idx = append(idx, k)
		}
	} else {
		r := NewRng(c.Seed, 77, uint64(c.Index))
		idx = append(idx, 0, 9, 10, 11, steps-1)
		for len(idx) < 16 {
			idx = append(idx, r.Intn(steps))
		}
	}
	anyInstErr := false
	var cand []Violation
	for _, k := range idx {
		t := c.Window.StartMs + int64(k)*c.Window.StepMs
		inst := RunEngine(ctx, NewStore(c.Dataset, c.Store), c.Engine, c.Query, Window{StartMs: t, EndMs: t})
		o.Count("instant_executions", 1)
		if inst.Res.Err != nil {
			anyInstErr = true
			continue
		}
		if rng.Res.Err != nil {
			continue
		}
		got, want := atTime(rng.Res, t), asVector(inst.Res)
		if d := Compare(got, want); d != nil {
			if Excuse(c, got, want, d, &o) == "" {
				cand = append(cand, Violation{"range-vs-instant:" + d.Rule, fmt.Sprintf("at t=%d (step %d of %d): range result differs from the instant result: %s\n  range:   %s\n  instant: %s", t, k, steps, d.Detail, got, want)})
			}
			break
		}
	}
	if rng.Res.Err != nil && !anyInstErr && len(idx) == steps {
		// The reference engine itself gives up the equality in one place: the result of a negation or of
		// a function over a range vector must not contain a label set twice anywhere in the window, so
		// two series that differ in the metric name only and follow each other in time fail the range
		// query and none of its instant queries. Where the reference's range query fails as well, the
		// engine is only doing what C01 demands.
		if ref := RunReference(ctx, NewStore(c.Dataset, c.Store), c.Engine, c.Query, c.Window); ref.Res.Err != nil {
			o.Count("range_error_shared_with_reference", 1)
		} else {
			cand = append(cand, Violation{"range-error-only", fmt.Sprintf("the range query fails (%v) but every instant query on its grid succeeds (and the reference engine's range query succeeds)", rng.Res.Err)})
		}
	}
	if rng.Res.Err == nil && anyInstErr {
		cand = append(cand, Violation{"instant-error-only", "an instant query on the grid fails but the range query succeeds"})
	}
	// sub-windows on the same grid
	if rng.Res.Err == nil && steps >= 3 {
		r := NewRng(c.Seed, 78, uint64(c.Index))
		for j := 0; j < 2; j++ {
			a := r.Intn(steps - 1)
			b := a + r.Intn(steps-a)
			sw := Window{StartMs: c.Window.StartMs + int64(a)*c.Window.StepMs, EndMs: c.Window.StartMs + int64(b)*c.Window.StepMs, StepMs: c.Window.StepMs}
			sub := RunEngine(ctx, NewStore(c.Dataset, c.Store), c.Engine, c.Query, sw)
			o.Count("subwindow_executions", 1)
			want := restrict(rng.Res, sw)
			if d := Compare(sub.Res, want); d != nil {
				if Excuse(c, sub.Res, want, d, &o) == "" {
					cand = append(cand, Violation{"subwindow:" + d.Rule, fmt.Sprintf("sub-window steps [%d,%d] of %d: %s\n  sub-window run: %s\n  restriction:    %s", a, b, steps, d.Detail, sub.Res, want)})
				}
				break
			}
		}
	}
	for _, d := range WellFormed(rng.Res, c.Window, "vector") {
		if d.Rule == "wf-type" {
			continue
		}
		cand = append(cand, Violation{d.Rule, d.Detail})
	}
	if len(cand) > 0 && InKnownClass(c, &o) {
		return o
	}
	o.Violations = cand
	o.Tag(fmt.Sprintf("steps%%10=%d", steps%10))
	return o
}

// ---------------------------------------------------------------------------------------------
// C09: logical optimizers preserve results (engine vs itself under NoOptimizers)

type c09Prop struct{}

func (c09Prop) ID() string     { return "C09" }
func (c09Prop) BatchSize() int { return 300 }
func (c09Prop) Rule() string {
	return "case = (query built from selector pairs/triples over a 2-key x 4-type x 3-value matcher alphabet placed in a position template, or a random larger expression; dataset with every label-presence combination); the engine's result under each of {sort, merge, prop, sort+merge(default), all, merge+prop, prop+merge} is compared with its result under NoOptimizers; quick enumerates template 0 over all ordered pairs with <=1 extra matcher and samples the rest, thorough enumerates template 0 over all ordered pairs of the 325 selectors and samples 1.2M pairs across all templates; non-trivial iff the unoptimized result is non-empty or an error"
}

var c09Ops = []string{"=", "!=", "=~", "!~"}
var c09Keys = []string{"a", "b"}
var c09Vals = []string{"x", "y", ""}

func c09Alphabet() []string {
	var out []string
	for _, k := range c09Keys {
		for _, op := range c09Ops {
			for _, v := range c09Vals {
				vv := v
				if strings.HasSuffix(op, "~") && v == "y" {
					vv = "x|y"
				}
				out = append(out, fmt.Sprintf("%s%s%q", k, op, vv))
			}
		}
	}
	return out
}

// c09Selectors: all matcher lists with <= 2 matchers (incl. duplicate keys), 1 + 24 + 24*24 = 601? we use
// unordered pairs plus singles plus empty: 1 + 24 + 300 = 325.
func c09Selectors() []string {
	al := c09Alphabet()
	out := []string{""}
	for _, a := range al {
		out = append(out, "{"+a+"}")
	}
	for i := range al {
		for j := i; j < len(al); j++ {
			out = append(out, "{"+al[i]+","+al[j]+"}")
		}
	}
	return out
}

var c09Templates = []string{
	"%s + %s",
	"%s * on(a,b) %s",
	"%s - ignoring(b) group_left %s",
	"abs(%s) + %s",
	"sum by (a) (%s) + sum by (a) (%s)",
	"rate(%s[1m]) + %s",
	"%s + scalar(%s)",
	"%s > %s",
	"-%s + %s",
	"(%s) / (%s)",
	"%s + on(a) group_right %s",
	"max_over_time(%s[2m]) - min_over_time(%s[2m])",
	"%s + on() %s",
	"%s * ignoring() %s",
	"%s - on() group_left %s",
	"%s offset 1m + %s",
	"%s @ 3630 - %s",
	"sum_over_time(%s[1m] offset 2m) - sum_over_time(%s[1m])",
	"%s + on(a) %s",
	"%s * ignoring(b) %s",
	"timestamp(%s) - on() group_left() count(%s)",
	"timestamp(%s) + %s",
	"count_over_time(%s[90s]) + count_over_time(%s[30s])",
	// nested aggregations of one operator: the outer grouping may name labels the inner one dropped
	"max by (a, b) (max by (a) (%s)) + %s",
	"min by (b) (min by (a) (%s)) - min(%s)",
	"group by (a, b) (group by (b) (%s)) * on(b) group_left max by (b) (%s)",
	"sum by (a) (sum by (a, b) (%s)) / on(a) sum by (a) (%s)",
	"%s offset 10m + %s",
	"%s offset -2m - %s",
	"%s @ 3000 + %s",
}

func c09Dataset(w Window) Dataset {
	var d Dataset
	v := 1.0
	for _, m := range []string{"m0", "m1"} {
		for _, a := range []string{"x", "y", ""} {
			for _, b := range []string{"x", "y", ""} {
				ls := map[string]string{"__name__": m}
				if a != "" {
					ls["a"] = a
				}
				if b != "" {
					ls["b"] = b
				}
				var sm []Sample
				phase := int64(len(d.Series)%4) * 3_700 // most series are scraped off the step grid
				for t := w.StartMs - 960_000; t <= w.EndMs+150_000; t += 30_000 {
					sm = append(sm, Sample{T: t - phase, V: v})
					v += 1
				}
				d.Series = append(d.Series, Series{Labels: ls, Samples: sm})
				v += 7
			}
		}
	}
	return d
}

var c09OptSets = []string{"sort", "merge", "prop", "default", "all", "merge+prop", "prop+merge", "sort+prop"}

func (c09Prop) counts(tier string) (enumPairs, sampled, random int) {
	sel := len(c09Selectors())
	if tier == "thorough" {
		// all ordered pairs x {same metric, two metrics} in template 0, then sampled pairs in every template
		return sel * sel * 2, 1200000, 150000
	}
	// quick: ordered pairs where each side has <= 1 matcher (25 x 25) x {same metric, two metrics} for template 0
	return 25 * 25 * 2, 14000, 6000
}

func (p c09Prop) NumCases(tier string) int {
	a, b, c := p.counts(tier)
	return a + b + c
}

func (p c09Prop) Gen(seed uint64, tier string, i int) Case {
	r := NewRng(seed, 9, uint64(i))
	c := Case{Prop: "C09", Kind: "optimizers", Seed: seed, Index: i}
	c.Window = Window{StartMs: 3_600_000, EndMs: 3_600_000 + 11*30_000, StepMs: 30_000}
	if r.P(0.3) {
		c.Window = Window{StartMs: 3_700_000, EndMs: 3_700_000}
	}
	c.Engine.Procs = Pick(r, []int{2, 4, 8})
	if r.P(0.3) {
		// a storage that serves nothing outside [hints.Start, hints.End] of each select, as the TSDB does:
		// rewritten selects must carry sufficient hints too
		c.Store.PruneToHints = true
	}
	c.Dataset = c09Dataset(c.Window)
	if r.P(0.6) {
		// a lone series on the second metric (and sometimes on the first): one-to-one matches on
		// on()/ignoring() lists become possible instead of ambiguous
		keep1 := r.Intn(9)
		keep0 := -1
		if r.P(0.5) {
			keep0 = r.Intn(9)
		}
		var ds Dataset
		i0, i1 := 0, 0
		for _, s := range c.Dataset.Series {
			if s.Labels["__name__"] == "m1" {
				if i1 == keep1 {
					ds.Series = append(ds.Series, s)
				}
				i1++
			} else {
				if keep0 < 0 || i0 == keep0 {
					ds.Series = append(ds.Series, s)
				}
				i0++
			}
		}
		c.Dataset = ds
	} else if r.P(0.5) {
		// thinned: some match groups of on(a)/ignoring(b) are unique, others ambiguous
		var ds Dataset
		for _, s := range c.Dataset.Series {
			if r.P(0.5) {
				ds.Series = append(ds.Series, s)
			}
		}
		c.Dataset = ds
	}
	sels := c09Selectors()
	enumPairs, sampled, _ := p.counts(tier)
	nameless := func(sel string) string {
		// a selector without a fixed metric name: it can return two series that differ in the name only
		if sel == "" {
			return `{__name__=~"m0|m1"}`
		}
		return `{__name__=~"m0|m1",` + sel[1:]
	}
	mk := func(si, sj, tmpl int, twoMetrics bool) string {
		m2 := "m0"
		if twoMetrics {
			m2 = "m1"
		}
		return fmt.Sprintf(c09Templates[tmpl], "m0"+sels[si], m2+sels[sj])
	}
	switch {
	case i < enumPairs && tier == "thorough":
		n := len(sels)
		k := i
		two := k%2 == 1
		k /= 2
		c.Query = mk(k/n, k%n, 0, two)
	case i < enumPairs:
		k := i
		two := k%2 == 1
		k /= 2
		c.Query = mk(k/25, k%25, 0, two)
	case i < enumPairs+sampled:
		pickSel := func() int {
			if r.P(0.6) {
				return r.Intn(25) // at most one matcher
			}
			return r.Intn(len(sels))
		}
		c.Query = mk(pickSel(), pickSel(), r.Intn(len(c09Templates)), r.P(0.5))
		if r.P(0.2) {
			a, b := "m0"+sels[pickSel()], nameless(sels[pickSel()])
			if r.P(0.5) {
				a, b = b, a
			}
			c.Query = fmt.Sprintf(c09Templates[r.Intn(len(c09Templates))], a, b)
		}
		if r.P(0.15) { // triples
			c.Query = fmt.Sprintf("(%s) + m0%s", c.Query, sels[r.Intn(len(sels))])
		}
	default:
		g := &GenCfg{Avoid: mergeAvoid(), MaxDepth: 3, W: c.Window}
		c.Dataset = GenDataset(r.Fork(), c.Window, 0, 20, false, false)
		c.Query = GenQuery(r.Fork(), g)
	}
	return c
}

func (c09Prop) Check(c Case) Outcome {
	var o Outcome
	if ok, err := NativeSupport(c.Query, c.Window); !ok {
		o.Skipped = "not native: " + fmt.Sprint(err)
		return o
	}
	ctx := context.Background()
	cfg := c.Engine
	cfg.Opt = "none"
	base := RunEngine(ctx, NewStore(c.Dataset, c.Store), cfg, c.Query, c.Window)
	o.NonTrivial = base.Res.Err != nil || len(base.Res.Series) > 0
	sets := c09OptSets
	if c.Engine.Opt != "" && c.Engine.Opt != "none" { // shrunk / replayed with a single set
		sets = []string{c.Engine.Opt}
	}
	for _, set := range sets {
		cfg.Opt = set
		got := RunEngine(ctx, NewStore(c.Dataset, c.Store), cfg, c.Query, c.Window)
		o.Count("optimized_executions", 1)
		if d := Compare(got.Res, base.Res); d != nil {
			if Excuse(c, got.Res, base.Res, d, &o) != "" {
				continue
			}
			if InKnownClass(c, &o) {
				return o
			}
			o.Add("optimizer:"+set, fmt.Sprintf("optimizer set %q changes the result: %s\n  optimized:   %s\n  unoptimized: %s", set, d.Detail, got.Res, base.Res))
			break
		}
	}
	return o
}

// ---------------------------------------------------------------------------------------------
// C10: distributed execution equals central execution over the union

type c10Prop struct{}

func (c10Prop) ID() string     { return "C10" }
func (c10Prop) BatchSize() int { return 300 }
func (c10Prop) Rule() string {
	return "case = (dataset of <=12 series, assignment of every series to one of 1..4 partitions incl. empty ones, query, instant|range window); the distributed engine over the partitions is compared with a single engine over the union; quick/thorough start with all 3^n assignments of n<=5 series to 3 partitions for a fixed query list, then seeded random cases (6% with two series that differ in the metric name only placed in different partitions, 8% with fallback-enabled engines over non-native sub-expressions); non-trivial iff the central result is non-empty or an error"
}

var c10Queries = []string{
	`sum by (a) (m0)`, `sum(m0)`, `count by (a) (m0)`, `count(m0)`, `max by (b) (m0)`, `min(m0)`, `group by (a) (m0)`,
	`avg by (a) (m0)`, `avg(m0)`, `stddev(m0)`, `quantile by (a) (0.5, m0)`, `topk(2, m0)`, `bottomk by (a) (1, m0)`,
	`m0`, `abs(m0)`, `rate(m0[1m])`, `sum by (a) (rate(m0[1m]))`, `max(sum by (a) (m0))`, `sum by (a) (m0) / sum by (a) (m1)`,
	`m0 + on(a,b,c) m0`, `max by (a) (m0 * 2)`, `sum(m0) + count(m1)`, `-sum by (b) (m0)`, `sum without (a) (m0)`,
	`clamp_min(sum by (a) (m0), 10)`, `sum by (a) (m0 > 5)`, `count(m0 > bool 5)`, `max_over_time(m0[2m])`, `sum(last_over_time(m0[1m]))`,
	`histogram_quantile(0.9, sum by (le) (h_bucket))`,
	// selectors that are not bound to one metric name: series of different partitions can coincide once the name is dropped
	`abs({__name__=~"m.*"})`, `-{__name__=~"m0|m1"}`, `rate({__name__=~"m.*"}[2m])`, `max_over_time({__name__=~"m.*"}[1m])`, `sum by (a) (-{__name__=~"m.*"})`,
	`max({__name__=~"m.*"})`, `count(abs({a=~".+"}))`, `{__name__=~"m.*"} * 2`, `sum(rate({__name__=~"m.+"}[2m]))`,
	// parameters that read series, directly or inside arithmetic: they must see every partition
	`topk(scalar(count(m1)) + 1, m0)`, `bottomk(1 * scalar(max(m1)), m0)`, `topk(scalar(count(m1)), m0)`, `topk by (a) (2 - scalar(min(m1)) / scalar(min(m1)), m0)`,
	`quantile(scalar(count(m1)) / 10, m0)`, `time()`, `vector(time())`, `sum(vector(time()))`, `m0 * time()`, `clamp_min(m0, time() / 1000)`,
}

var c10Twins = []string{`rate({__name__=~"m.*"}[2m])`, `max_over_time({__name__=~"m.*"}[1m])`, `-{__name__=~"m0|m1"}`, `abs({__name__=~"m.*"})`, `{__name__=~"m.*"} * 2`,
	`abs(rate({__name__=~"m.*"}[2m]))`, `-abs({__name__=~"m.*"})`, `abs(-{__name__=~"m.*"})`, `last_over_time({__name__=~"m.*"}[1m])`, `-last_over_time({__name__=~"m.*"}[1m])`,
	`sum by (a) (rate({__name__=~"m.*"}[2m]))`, `max(-{__name__=~"m.*"})`, `count_over_time({__name__=~"m.*"}[30s])`, `timestamp({__name__=~"m.*"})`,
	// the same below distributive aggregations, the names given as an alternation, a character class or an anchored pattern
	`max(-{__name__=~"m0|m1"})`, `sum by (a) (abs({__name__=~"m0|m1"}))`, `sum(rate({__name__=~"m0|m1"}[2m]))`, `min by (a, b) (-{__name__=~"m[01]"})`,
	`count(abs({__name__=~"m0|m1|m2"}))`, `sum by (a) (rate({__name__=~"(m0|m1)"}[2m]))`, `max(abs({__name__!="m2"}))`, `sum(-{__name__!~"h.*"})`}

var c10Fallback = []string{`round(m0)`, `sum by (a) (round(m0))`, `max_over_time(m0[2m:30s])`, `max(minute(m0))`, `sort(m0)`, `sum(m0) or sum(m1)`,
	`count(m0 and on(a) m1)`, `sum by (a) (rate(m0[2m:15s]))`, `sgn(m0)`, `label_replace(m0, "d", "$1", "a", "(.*)")`, `count_values("v", m0)`}

func c10Exhaustive() int { return (3 + 9 + 27 + 81 + 243) * 8 } // n=1..5 series, 8 queries, x window kind folded into index

func (c10Prop) NumCases(tier string) int {
	if tier == "thorough" {
		return c10Exhaustive()*4 + 250000
	}
	return c10Exhaustive() + 9000
}

func (c10Prop) Gen(seed uint64, tier string, i int) Case {
	r := NewRng(seed, 10, uint64(i))
	c := Case{Prop: "C10", Kind: "distributed", Seed: seed, Index: i}
	c.Window = GenWindow(r, true)
	if !c.Window.Instant() && c.Window.Steps() > 40 {
		c.Window.EndMs = c.Window.StartMs + 25*c.Window.StepMs
	}
	c.Engine.Procs = Pick(r, []int{2, 4, 8, 16})
	c.Engine.Opt = Pick(r, []string{"none", "default"})
	if r.P(0.25) {
		// the lookback in force (the engine's, or one given for this query only) applies to every part
		// of the plan, wherever it is evaluated
		c.Engine.LookbackMs = Pick(r, []int64{1000, 30_000, 60_000, 420_001})
		if r.P(0.5) {
			c.Engine.LookbackMs = 0
			c.Engine.QueryLookbackMs = Pick(r, []int64{1000, 30_000, 60_000, 120_000, 420_001})
		}
	}
	if GlobalAvoid["dist:optimizers"] {
		c.Engine.Opt = "none"
	}
	ex := c10Exhaustive()
	if tier == "thorough" {
		ex *= 4
	}
	if i < ex {
		k := i / 8
		q := i % 8
		k %= (3 + 9 + 27 + 81 + 243)
		n := 1
		for pow := 3; k >= pow; pow *= 3 {
			k -= pow
			n++
		}
		c.Query = c10Queries[(q*5+n)%len(c10Queries)]
		c.Dataset = GenDataset(r.Fork(), c.Window, 0, 0, false, false)
		for s := 0; s < n; s++ {
			ls := map[string]string{"__name__": "m0", "a": labelValues[s%2], "b": labelValues[s%3]}
			c.Dataset.Series = append(c.Dataset.Series, Series{Labels: ls, Samples: GenSamples(r, c.Window, 0, false)})
		}
		c.Dataset.Normalize()
		c.NParts = 3
		for s := 0; s < len(c.Dataset.Series); s++ {
			c.Parts = append(c.Parts, k%3)
			k /= 3
		}
		return c
	}
	c.Dataset = GenDataset(r.Fork(), c.Window, 0, 12, false, r.P(0.15))
	c.NParts = 1 + r.Intn(4)
	for range c.Dataset.Series {
		c.Parts = append(c.Parts, r.Intn(c.NParts))
	}
	if r.P(0.06) {
		// series that differ in the metric name only, in different partitions, taking turns in time or
		// overlapping: no remote engine sees both, the central one does
		var ds Dataset
		for _, sr := range c.Dataset.Series {
			if sr.Labels["__name__"] != "h_bucket" && sr.Labels["__name__"] != "g_bucket" {
				ds.Series = append(ds.Series, sr)
			}
		}
		if len(ds.Series) == 0 {
			ds.Series = append(ds.Series, Series{Labels: map[string]string{"__name__": "m0", "a": "x"}, Samples: GenSamples(r, c.Window, 0, false)})
		}
		AddTwin(r, &ds, c.Window, 0, false, r.P(0.7))
		ds.Normalize() // a twin whose label set exists already is dropped
		c.Dataset = ds
		c.NParts = 2 + r.Intn(2)
		c.Parts = nil
		for range c.Dataset.Series {
			c.Parts = append(c.Parts, r.Intn(c.NParts))
		}
		separateTwins(&c)
		c.Query = Pick(r, c10Twins)
		return c
	}
	if r.P(0.08) {
		// engines with the fallback enabled (the default configuration): parts of the query that the
		// engine does not implement are answered by the Prometheus engine, centrally and on the remotes
		c.Engine.Fallback = true
		c.Query = Pick(r, c10Fallback)
	} else if r.P(0.6) {
		c.Query = Pick(r, c10Queries)
	} else {
		extra := []string{}
		if GlobalAvoid["dist:nameless"] {
			extra = append(extra, "nameless-selector")
		}
		g := &GenCfg{Avoid: mergeAvoid(extra...), MaxDepth: 3, W: c.Window}
		c.Query = GenQuery(r.Fork(), g)
	}
	return c
}

// separateTwins moves series that differ in the metric name only into different partitions.
func separateTwins(c *Case) {
	if c.NParts < 2 {
		return
	}
	for i, si := range c.Dataset.Series {
		for j := i + 1; j < len(c.Dataset.Series) && j < len(c.Parts); j++ {
			sj := c.Dataset.Series[j]
			same := len(si.Labels) == len(sj.Labels) && si.Labels["__name__"] != sj.Labels["__name__"]
			for ln, lv := range si.Labels {
				if ln != "__name__" && sj.Labels[ln] != lv {
					same = false
				}
			}
			if same && c.Parts[i] == c.Parts[j] {
				c.Parts[j] = (c.Parts[i] + 1) % c.NParts
			}
		}
	}
}

func partition(c Case) []Dataset {
	n := c.NParts
	if n < 1 {
		n = 1
	}
	out := make([]Dataset, n)
	for i, s := range c.Dataset.Series {
		p := 0
		if i < len(c.Parts) {
			p = c.Parts[i] % n
		}
		out[p].Series = append(out[p].Series, s)
	}
	return out
}

func (c10Prop) Check(c Case) Outcome {
	var o Outcome
	if ok, err := NativeSupport(c.Query, c.Window); !ok && !c.Engine.Fallback {
		o.Skipped = "not native: " + fmt.Sprint(err)
		return o
	}
	ctx := context.Background()
	central := RunEngine(ctx, NewStore(c.Dataset, c.Store), c.Engine, c.Query, c.Window)
	o.NonTrivial = central.Res.Err != nil || len(central.Res.Series) > 0
	var parts []storage.Queryable
	empty := 0
	for _, d := range partition(c) {
		if len(d.Series) == 0 {
			empty++
		}
		parts = append(parts, NewStore(d, c.Store))
	}
	dist := RunDistributedOver(ctx, NewStore(c.Dataset, c.Store), parts, c.Engine, c.Query, c.Window, nil)
	o.Tag(fmt.Sprintf("parts=%d empty=%d", len(parts), empty))
	if d := Compare(dist.Res, central.Res); d != nil {
		if Excuse(c, dist.Res, central.Res, d, &o) != "" || InKnownClass(c, &o) {
			return o
		}
		o.Add("distributed:"+d.Rule, fmt.Sprintf("%s\n  distributed: %s\n  central:     %s", d.Detail, dist.Res, central.Res))
	}
	return o
}

// ---------------------------------------------------------------------------------------------
// C11: independence from core count, schedule, storage series order, unrelated data, repetition

type c11Prop struct{}

func (c11Prop) ID() string     { return "C11" }
func (c11Prop) BatchSize() int { return 120 }
func (c11Prop) Rule() string {
	return "case = (dataset with 0..40 series, query biased to order-sensitive consumers, window); the baseline (GOMAXPROCS 1, storage order sorted, no perturbation) is compared with runs at GOMAXPROCS 2..16, permuted storage series order (one seeded permutation and the exact reverse), extra non-matching series, yield/sleep perturbation in storage callbacks and at the verif hook points, and plain repetitions; non-trivial iff the baseline result is non-empty or an error; cells = (shards, series mod shards)"
}
func (c11Prop) NumCases(tier string) int {
	if tier == "thorough" {
		return 100000
	}
	return 6000
}

var c11Biased = []string{
	`topk(2, m0)`, `bottomk by (a) (1, m0)`, `quantile(0.5, m0)`, `quantile by (b) (0.9, m0)`, `m0 * on(a) group_left(c) m1`,
	`m0 + on(a, b) m1`, `sum(m0)`, `avg by (a) (m0)`, `stddev(m0)`, `topk(3, rate(m0[1m]))`, `m0 > on(a,b,c) m1`, `count by (a, b) (m0)`,
	`max by (c) (m0) / on(c) min by (c) (m1)`, `-m0`, `sum by (a) (-m0)`, `histogram_quantile(0.5, h_bucket)`,
	// the same select consumed by several operators of one plan (shared through the selector pool)
	`m0 * 2 + -m0`, `(m0 - 1) / on(a, b, c) m0`, `m0 * 2 > on(a, b, c) m0`, `abs(m0) + on(a, b, c) -m0`, `m0 + on(a, b, c) rate(m0[1m])`,
	`(m0 > 1) + on(a, b, c) (1 + m0)`, `sum by (a) (m0 * 2) / on(a) max by (a) (-m0)`, `quantile(1, m0)`, `quantile by (a) (0, m0)`,
	// a narrower and a broader select of one metric (merged into one select plus a filter by the default optimizers)
	`m0{a="x"} / m0`, `m0{a=~"x|y"} * on(a, b, c) m0`, `sum(m0{b="x"}) / sum(m0)`, `m0 - on(a, b, c) m0{c!="z"}`, `rate(m0{a!="y"}[1m]) + on(a, b, c) m0`,
	// selectors over several metric names: whether equal label sets are detected must not depend on the sharding
	`rate({__name__=~"m.*"}[2m])`, `sum by (a) (rate({__name__=~"m.*"}[2m]))`, `abs({__name__=~"m.*"})`, `-{__name__=~"m0|m1"}`, `max_over_time({__name__=~"m.+"}[1m])`,
	`{__name__=~"m.*"} * 2`, `sum by (a, b, c) (changes({__name__=~"m.*"}[2m]))`,
	// ungrouped reductions over values that may be NaN: the answer must not depend on who comes first
	`max(m0)`, `min(m0)`, `max(m0) - min(m0)`, `max(m1) / min(m0)`, `min(-m0)`, `sum(m0)`, `avg(m0)`,
	// parameters that change from step to step (workers must pair every step with its own parameter)
	`quantile(scalar(sum(m1)) / 1000, m0)`, `quantile by (a) ((time() % 100) / 100, m0)`, `topk(1 + scalar(count(m1)) % 3, m0)`, `clamp_min(m0, time() % 7)`,
}

func (c11Prop) Gen(seed uint64, tier string, i int) Case {
	r := NewRng(seed, 11, uint64(i))
	c := Case{Prop: "C11", Kind: "independence", Seed: seed, Index: i}
	c.Window = GenWindow(r, true)
	if !c.Window.Instant() && c.Window.Steps() > 40 {
		c.Window.EndMs = c.Window.StartMs + 30*c.Window.StepMs
	}
	c.Engine.LookbackMs = GenLookback(r)
	c.Engine.Opt = Pick(r, []string{"none", "default"})
	c.Dataset = GenDataset(r.Fork(), c.Window, c.Engine.LookbackMs, 40, r.P(0.3), r.P(0.2))
	// no negative zeros here: min/max/topk keep the first of equal values, so which zero survives
	// depends on the order of the series - in the reference engine as well
	for si := range c.Dataset.Series {
		for k, sm := range c.Dataset.Series[si].Samples {
			if sm.V == 0 {
				c.Dataset.Series[si].Samples[k].V = 0
			}
		}
	}
	if r.P(0.45) {
		c.Query = Pick(r, c11Biased)
	} else {
		g := &GenCfg{Avoid: mergeAvoid(), MaxDepth: 3, W: c.Window, Lookback: c.Engine.LookbackMs}
		c.Query = GenQuery(r.Fork(), g)
	}
	if r.P(0.2) {
		AddTwin(r, &c.Dataset, c.Window, c.Engine.LookbackMs, false, r.P(0.6))
		c.Dataset.Normalize()
		if r.P(0.6) {
			c.Query = Pick(r, c07Twins) // the name is dropped: the twins meet in one output series
		}
	}
	c.Procs = []int{2, 3, 4, 6, 8, 10, 12, 16}
	c.Extra = map[string]any{"perm": float64(1 + r.Uint64()%1000000), "perturb": float64(1 + r.Uint64()%1000000)}
	return c
}

func hasNamelessSelector(q string) bool {
	e, err := parser.ParseExpr(q)
	if err != nil {
		return true
	}
	nameless := false
	parser.Inspect(e, func(n parser.Node, _ []parser.Node) error {
		if vs, ok := n.(*parser.VectorSelector); ok && vs.Name == "" {
			nameless = true
		}
		return nil
	})
	return nameless
}

func (c11Prop) Check(c Case) Outcome {
	var o Outcome
	if ok, err := NativeSupport(c.Query, c.Window); !ok {
		o.Skipped = "not native: " + fmt.Sprint(err)
		return o
	}
	ctx := context.Background()
	base := c.Engine
	base.Procs = 1
	want := RunEngine(ctx, NewStore(c.Dataset, StoreOpts{}), base, c.Query, c.Window)
	o.NonTrivial = want.Res.Err != nil || len(want.Res.Series) > 0
	perm, _ := c.Extra["perm"].(float64)
	pert, _ := c.Extra["perturb"].(float64)
	type variant struct {
		name  string
		cfg   EngineCfg
		so    StoreOpts
		data  Dataset
		hooks uint64
	}
	var vs []variant
	procs := c.Procs
	if len(procs) == 0 {
		procs = []int{2, 4, 8, 16}
	}
	for _, p := range procs {
		cfg := c.Engine
		cfg.Procs = p
		vs = append(vs, variant{name: fmt.Sprintf("GOMAXPROCS=%d", p), cfg: cfg, data: c.Dataset})
	}
	cfgN := c.Engine
	cfgN.Procs = Pick(NewRng(c.Seed, 111, uint64(c.Index)), []int{4, 8, 16})
	vs = append(vs, variant{name: "permuted-series-order", cfg: cfgN, so: StoreOpts{PermuteSeed: uint64(perm)}, data: c.Dataset})
	vs = append(vs, variant{name: "permuted-series-order=reversed", cfg: cfgN, so: StoreOpts{PermuteSeed: ^uint64(0)}, data: c.Dataset})
	if !hasNamelessSelector(c.Query) {
		ex := c.Dataset.Clone()
		for k := 0; k < 7; k++ {
			ls := map[string]string{"__name__": fmt.Sprintf("zz%d", k%3), "a": labelValues[k%3], "b": labelValues[(k+1)%3]}
			if k%2 == 0 {
				ls["c"] = "x"
			}
			ex.Series = append(ex.Series, Series{Labels: ls, Samples: []Sample{{T: c.Window.StartMs - 1000, V: float64(1000 + k)}, {T: c.Window.EndMs, V: float64(2000 + k)}}})
		}
		ex.Normalize()
		vs = append(vs, variant{name: "unrelated-series-added", cfg: cfgN, data: ex})
	}
	vs = append(vs, variant{name: "perturbed-storage", cfg: cfgN, so: StoreOpts{PerturbSeed: uint64(pert)}, data: c.Dataset})
	vs = append(vs, variant{name: "perturbed-hooks", cfg: cfgN, data: c.Dataset, hooks: uint64(pert)})
	vs = append(vs, variant{name: "repeat-1", cfg: cfgN, data: c.Dataset}, variant{name: "repeat-2", cfg: cfgN, data: c.Dataset, hooks: uint64(pert) + 1})
	nser := len(c.Dataset.Series)
	for _, v := range vs {
		var got ExecOut
		run := func() { got = RunEngine(ctx, NewStore(v.data, v.so), v.cfg, c.Query, c.Window) }
		if v.hooks != 0 {
			WithPerturbation(v.hooks, run)
		} else {
			run()
		}
		o.Count("variant_executions", 1)
		shards := v.cfg.Procs / 2
		if shards < 1 {
			shards = 1
		}
		o.Tag(fmt.Sprintf("cell:shards=%d,mod=%d", shards, nser%shards))
		if d := Compare(got.Res, want.Res); d != nil {
			// Which of several tied series topk/bottomk keep is decided by the order in which they arrive
			// ("first seen wins", as in the reference): a legitimate difference when the storage order was
			// changed, none when only the core count, the schedule or the repetition differs. Comparisons
			// at a rounding threshold stay excused everywhere (summation order follows the sharding).
			var tmp Outcome
			if ex := Excuse(c, got.Res, want.Res, d, &tmp); ex != "" {
				if !strings.HasPrefix(ex, "tie") || strings.HasPrefix(v.name, "permuted-series-order") || v.name == "unrelated-series-added" {
					o.Inconclusive = tmp.Inconclusive
					for k, n := range tmp.Counters {
						o.Count(k, n)
					}
					continue
				}
			}
			if InKnownClass(c, &o) {
				return o
			}
			o.Add("differs:"+strings.SplitN(v.name, "=", 2)[0], fmt.Sprintf("variant %s differs from the baseline (GOMAXPROCS=1, sorted storage, unperturbed): %s\n  variant:  %s\n  baseline: %s", v.name, d.Detail, got.Res, want.Res))
			break
		}
	}
	return o
}

// ---------------------------------------------------------------------------------------------
// C16: selects carry the reference's matchers/range/hints; hints are sufficient

type c16Prop struct{}

func (c16Prop) ID() string     { return "C16" }
func (c16Prop) BatchSize() int { return 300 }
func (c16Prop) Rule() string {
	return "case = (query, window, lookback, optimizer set); (a) with NoOptimizers the set of distinct (matchers, Start, End, Step, Range, Func, Grouping, By) tuples the engine passes to Select is compared with the set the reference engine passes for the same query on the same recording store; (b) for every optimizer set the result over a store that drops all samples outside [hints.Start, hints.End] of each select is compared with the result over the unpruned store; non-trivial iff at least one select was recorded and the result is non-empty"
}
func (c16Prop) NumCases(tier string) int {
	if tier == "thorough" {
		return 600000
	}
	return 30000
}

var c16Shapes = []string{
	`%s`, `sum by (a) (%s)`, `sum without (b) (%s)`, `abs(%s)`, `sum by (a) (abs(%s))`, `rate(%s[1m])`, `sum by (b) (rate(%s[2m]))`,
	`-%s`, `sum by (a) (-%s)`, `(%s)`, `max by (a) ((%s))`, `sum by (a) (%s + %s)`, `%s + on(a) group_left %s`, `topk by (a) (2, %s)`,
	`quantile by (b) (0.5, %s)`, `histogram_quantile(0.9, %s)`, `clamp_min(%s, 1)`, `sum(max_over_time(%s[3m]))`, `count(%s > 2)`,
	`avg by (a) (delta(%s[1m30s]))`, `2 * %s`, `min by (a) (2 * %s)`, `last_over_time(%s[5m])`,
	// the same metric selected twice (select merging / selector pooling in play)
	`%s - on(a, b, c) m0`, `m0 - on(a, b, c) %s`, `sum(%s) / sum(m0)`, `%s + on(a, b, c) %s`, `max by (a) (%s) - on(a) min by (a) (m0)`,
	`m1 * on(a, b, c) %s`, `count(%s) + count(m1 offset 5m)`,
	// timestamp() and range functions over a select that is merged with a broader one of the same metric
	`timestamp(%s) / on(a, b, c) timestamp(m0)`, `timestamp(%s) - on() group_left() count(m0)`, `timestamp(m0) - on(a, b, c) timestamp(%s)`,
	`rate(%s[2m]) / on(a, b, c) rate(m0[2m])`, `timestamp(%s) + on(a, b, c) m1`, `histogram_quantile(0.5, %s) + on() group_left() 0 * count(h_bucket)`,
}

func (c16Prop) Gen(seed uint64, tier string, i int) Case {
	r := NewRng(seed, 16, uint64(i))
	c := Case{Prop: "C16", Kind: "hints", Seed: seed, Index: i}
	c.Window = GenWindow(r, true)
	if !c.Window.Instant() && c.Window.Steps() > 40 {
		c.Window.EndMs = c.Window.StartMs + 30*c.Window.StepMs
	}
	c.Engine.LookbackMs = GenLookback(r)
	c.Engine.Procs = Pick(r, []int{2, 4, 8})
	c.Engine.Opt = Pick(r, []string{"none", "none", "default", "all", "merge", "prop"})
	g := &GenCfg{Avoid: mergeAvoid(), MaxDepth: 3, W: c.Window, Lookback: c.Engine.LookbackMs}
	c.Dataset = GenDataset(r.Fork(), c.Window, c.Engine.LookbackMs, 16, false, r.P(0.2))
	if r.P(0.25) {
		// a lookback delta given for this query only (instant and range queries take it on different
		// entry points), or options without one
		c.Engine.QueryLookbackMs = Pick(r, []int64{1000, 30_000, 60_000, 120_000, 420_001})
		if r.P(0.3) {
			c.Engine.QueryLookbackMs, c.Engine.EmptyQueryOpts = 0, true
		}
	}
	if r.P(0.6) {
		q := &qgen{r: r.Fork(), g: g}
		sh := Pick(r, c16Shapes)
		n := strings.Count(sh, "%s")
		args := make([]any, n)
		for k := range args {
			s := q.selector()
			if strings.Contains(sh, "%s[") {
				// range selector: modifiers must follow the range
				s = q.metric() + q.matchers()
				if s == "" {
					s = "m0"
				}
			}
			args[k] = s
		}
		c.Query = fmt.Sprintf(sh, args...)
	} else {
		c.Query = GenQuery(r.Fork(), g)
	}
	return c
}

type selTuple struct {
	Matchers string
	Start    int64
	End      int64
	Step     int64
	Range    int64
	Func     string
	Grouping string
	By       bool
}

func selSet(rep StoreReport) map[selTuple]int {
	m := map[selTuple]int{}
	for _, s := range rep.Selects {
		ms := append([]string(nil), s.Matchers...)
		sort.Strings(ms)
		gs := append([]string(nil), s.Grouping...)
		sort.Strings(gs) // the grouping labels are a set: their order carries no meaning
		m[selTuple{strings.Join(ms, ","), s.Start, s.End, s.Step, s.Range, s.Func, strings.Join(gs, ";"), s.By}]++
	}
	return m
}

func (c16Prop) Check(c Case) Outcome {
	var o Outcome
	if _, err := parser.ParseExpr(c.Query); err != nil {
		o.Skipped = "unparsable: " + err.Error()
		return o
	}
	if ok, err := NativeSupport(c.Query, c.Window); !ok {
		o.Skipped = "not native: " + fmt.Sprint(err)
		return o
	}
	ctx := context.Background()
	// (a) hints equal the reference's, without rewrites
	cfg := c.Engine
	cfg.Opt = "none"
	es := NewStore(c.Dataset, StoreOpts{})
	eng := RunEngine(ctx, es, cfg, c.Query, c.Window)
	rs := NewStore(c.Dataset, StoreOpts{})
	ref := RunReference(ctx, rs, cfg, c.Query, c.Window)
	if eng.Res.Err == nil && ref.Res.Err == nil {
		got, want := selSet(es.Report()), selSet(rs.Report())
		o.Count("selects_recorded", int64(len(got)))
		if len(got) > 0 && len(eng.Res.Series) > 0 {
			o.NonTrivial = true
		}
		var miss, extra []string
		for k := range want {
			if _, ok := got[k]; !ok {
				miss = append(miss, fmt.Sprintf("%+v", k))
			}
		}
		for k := range got {
			if _, ok := want[k]; !ok {
				extra = append(extra, fmt.Sprintf("%+v", k))
			}
		}
		sort.Strings(miss)
		sort.Strings(extra)
		if len(miss)+len(extra) > 0 {
			field := diffField(miss, extra)
			o.Add("hints:"+field, fmt.Sprintf("selects differ from the reference engine's\n  engine only:    %s\n  reference only: %s", strings.Join(extra, " | "), strings.Join(miss, " | ")))
		}
	}
	// (b) sufficiency of the hinted range under the case's optimizer set
	// baseline: a storage that omits nothing (not even what lies outside the querier's range);
	// pruned: a storage that keeps exactly what the hints ask for
	full := RunEngine(ctx, NewStore(c.Dataset, StoreOpts{NoTrim: true}), c.Engine, c.Query, c.Window)
	pruned := RunEngine(ctx, NewStore(c.Dataset, StoreOpts{NoTrim: true, PruneToHints: true}), c.Engine, c.Query, c.Window)
	if d := Compare(pruned.Res, full.Res); d != nil {
		if Excuse(c, pruned.Res, full.Res, d, &o) == "" && !InKnownClass(c, &o) {
			o.Add("hints-insufficient:"+d.Rule, fmt.Sprintf("result changes when the storage drops samples outside [hints.Start, hints.End] (optimizers %q): %s\n  pruned: %s\n  full:   %s", c.Engine.Opt, d.Detail, pruned.Res, full.Res))
		}
	}
	return o
}

// diffField names the first tuple field in which an engine-only and a reference-only select differ
// (after pairing by matchers), for the finding identity.
func diffField(miss, extra []string) string {
	if len(miss) == 0 {
		return "extra-select"
	}
	if len(extra) == 0 {
		return "missing-select"
	}
	fields := []string{"Matchers", "Start", "End", "Step", "Range", "Func", "Grouping", "By"}
	split := func(s string) []string {
		s = strings.TrimSuffix(strings.TrimPrefix(s, "{"), "}")
		var out []string
		for _, f := range fields {
			i := strings.Index(s, f+":")
			if i < 0 {
				out = append(out, "")
				continue
			}
			rest := s[i+len(f)+1:]
			end := len(rest)
			for _, g := range fields {
				if j := strings.Index(rest, " "+g+":"); j >= 0 && j < end {
					end = j
				}
			}
			out = append(out, rest[:end])
		}
		return out
	}
	a, b := split(extra[0]), split(miss[0])
	for i, f := range fields {
		if a[i] != b[i] {
			return f
		}
	}
	return "multiset"
}

func init() {
	Register(c07Prop{})
	Register(c09Prop{})
	Register(c10Prop{})
	Register(c11Prop{})
	Register(c16Prop{})
}
