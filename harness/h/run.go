package h

import (
	"io"
	"context"
	"errors"
	"fmt"
	"runtime"
	"sort"
	"strings"
	"time"

	"github.com/prometheus/client_golang/prometheus"
	"github.com/prometheus/prometheus/model/labels"
	"github.com/prometheus/prometheus/promql"
	"github.com/prometheus/prometheus/promql/parser"
	"github.com/prometheus/prometheus/storage"

	"github.com/thanos-community/promql-engine/api"
	"github.com/thanos-community/promql-engine/engine"
	"github.com/thanos-community/promql-engine/execution/parse"
	"github.com/thanos-community/promql-engine/logicalplan"
)

// EngineCfg is the configuration of the engine under test for one execution.
type EngineCfg struct {
	LookbackMs      int64  `json:"lookback_ms,omitempty"`       // 0 = default 5m
	QueryLookbackMs int64  `json:"query_lookback_ms,omitempty"` // per-query QueryOpts.LookbackDelta
	EmptyQueryOpts  bool   `json:"empty_query_opts,omitempty"`  // pass non-nil QueryOpts that set nothing
	Debug           bool   `json:"debug,omitempty"`             // engine created with a DebugWriter (plans are explained at creation)
	Opt             string `json:"opt,omitempty"`               // none|sort|merge|prop|default|all|sort+prop|merge+prop|...
	Fallback        bool   `json:"fallback,omitempty"`
	Procs           int    `json:"procs,omitempty"` // GOMAXPROCS during plan creation+execution; 0 = leave
}

// Optimizers resolves an optimizer-set name.
func Optimizers(name string) []logicalplan.Optimizer {
	switch name {
	case "", "none":
		return logicalplan.NoOptimizers
	case "default":
		return logicalplan.DefaultOptimizers
	case "all":
		return logicalplan.AllOptimizers
	}
	out := []logicalplan.Optimizer{}
	for _, p := range strings.Split(name, "+") {
		switch p {
		case "sort":
			out = append(out, logicalplan.SortMatchers{})
		case "merge":
			out = append(out, logicalplan.MergeSelectsOptimizer{})
		case "prop":
			out = append(out, logicalplan.PropagateMatchersOptimizer{})
		}
	}
	return out
}

// RPoint / RSeries / Result: canonical, engine-independent form of a promql.Result.
type RPoint struct {
	T int64
	V float64
}
type RSeries struct {
	Labels labels.Labels
	Points []RPoint
}
type Result struct {
	Type     string // vector | matrix | scalar | string | none
	Series   []RSeries
	Err      error
	ErrClass string // "" | eval | context | unsupported | storage | panic
	// Raw keeps the order as returned (for C19 sortedness).
	RawOrder []labels.Labels
}

func (r Result) String() string {
	var b strings.Builder
	if r.Err != nil {
		fmt.Fprintf(&b, "ERROR[%s]: %v", r.ErrClass, r.Err)
		return b.String()
	}
	fmt.Fprintf(&b, "%s{", r.Type)
	for i, s := range r.Series {
		if i > 0 {
			b.WriteString("; ")
		}
		if i >= 12 {
			fmt.Fprintf(&b, "… %d more", len(r.Series)-i)
			break
		}
		b.WriteString(s.Labels.String())
		b.WriteString(" =>")
		for j, p := range s.Points {
			if j >= 14 {
				fmt.Fprintf(&b, " … %d more", len(s.Points)-j)
				break
			}
			fmt.Fprintf(&b, " %s@%d", fmtF(p.V), p.T)
		}
	}
	b.WriteString("}")
	return b.String()
}

func classify(err error) string {
	if err == nil {
		return ""
	}
	var ec promql.ErrQueryCanceled
	var et promql.ErrQueryTimeout
	var es promql.ErrStorage
	switch {
	case errors.Is(err, context.Canceled), errors.Is(err, context.DeadlineExceeded), errors.As(err, &ec), errors.As(err, &et):
		return "context"
	case errors.Is(err, parse.ErrNotSupportedExpr), errors.Is(err, parse.ErrNotImplemented):
		return "unsupported"
	case errors.Is(err, ErrInjected):
		return "storage"
	case errors.As(err, &es):
		return "storage"
	}
	return "eval"
}

// Canon converts a promql.Result.
func Canon(res *promql.Result) Result {
	if res == nil {
		return Result{Type: "none", Err: errors.New("nil result"), ErrClass: "eval"}
	}
	if res.Err != nil {
		return Result{Type: "none", Err: res.Err, ErrClass: classify(res.Err)}
	}
	out := Result{}
	switch v := res.Value.(type) {
	case promql.Vector:
		out.Type = "vector"
		for _, s := range v {
			out.Series = append(out.Series, RSeries{Labels: s.Metric.Copy(), Points: []RPoint{{s.T, s.V}}})
			out.RawOrder = append(out.RawOrder, s.Metric.Copy())
		}
	case promql.Matrix:
		out.Type = "matrix"
		for _, s := range v {
			rs := RSeries{Labels: s.Metric.Copy()}
			for _, p := range s.Points {
				rs.Points = append(rs.Points, RPoint{p.T, p.V})
			}
			out.Series = append(out.Series, rs)
			out.RawOrder = append(out.RawOrder, s.Metric.Copy())
		}
	case promql.Scalar:
		out.Type = "scalar"
		out.Series = []RSeries{{Points: []RPoint{{v.T, v.V}}}}
	case promql.String:
		out.Type = "string"
		out.Series = []RSeries{{Labels: labels.FromStrings("s", v.V), Points: []RPoint{{v.T, 0}}}}
	case nil:
		out.Type = "none"
	default:
		out.Type = fmt.Sprintf("%T", v)
	}
	sort.SliceStable(out.Series, func(i, j int) bool { return labels.Compare(out.Series[i].Labels, out.Series[j].Labels) < 0 })
	return out
}

var bigTimeout = time.Hour

func refOpts(cfg EngineCfg) promql.EngineOpts {
	lb := time.Duration(cfg.LookbackMs) * time.Millisecond
	if lb == 0 {
		lb = 5 * time.Minute
	}
	return promql.EngineOpts{
		MaxSamples:               10_000_000_000,
		Timeout:                  bigTimeout,
		LookbackDelta:            lb,
		EnableAtModifier:         true,
		EnableNegativeOffset:     true,
		NoStepSubqueryIntervalFn: func(int64) int64 { return 30_000 },
	}
}

func engOpts(cfg EngineCfg, reg prometheus.Registerer) engine.Opts {
	o := engine.Opts{EngineOpts: refOpts(cfg), DisableFallback: !cfg.Fallback, LogicalOptimizers: Optimizers(cfg.Opt)}
	o.EngineOpts.Reg = reg
	if cfg.Debug {
		o.DebugWriter = io.Discard
	}
	return o
}

// QueryEngine abstracts the two engines.
type QueryEngine interface {
	NewInstantQuery(q storage.Queryable, opts *promql.QueryOpts, qs string, ts time.Time) (promql.Query, error)
	NewRangeQuery(q storage.Queryable, opts *promql.QueryOpts, qs string, start, end time.Time, interval time.Duration) (promql.Query, error)
}

func ms(t int64) time.Time { return time.UnixMilli(t) }

// NewQuery creates a query on e for the window.
func NewQuery(e QueryEngine, st storage.Queryable, cfg EngineCfg, q string, w Window) (promql.Query, error) {
	var qo *promql.QueryOpts
	if cfg.QueryLookbackMs != 0 {
		qo = &promql.QueryOpts{LookbackDelta: time.Duration(cfg.QueryLookbackMs) * time.Millisecond}
	} else if cfg.EmptyQueryOpts {
		qo = &promql.QueryOpts{}
	}
	if w.Instant() {
		return e.NewInstantQuery(st, qo, q, ms(w.StartMs))
	}
	return e.NewRangeQuery(st, qo, q, ms(w.StartMs), ms(w.EndMs), time.Duration(w.StepMs)*time.Millisecond)
}

// Exec1 creates, executes and closes one query; creation errors are reported as the result's error
// with CreateErr set.
type ExecOut struct {
	Res       Result
	CreateErr bool
	Native    bool // the returned query was the engine's own (not the fallback)
}

func withProcs(n int, f func()) {
	if n > 0 {
		old := runtime.GOMAXPROCS(n)
		defer runtime.GOMAXPROCS(old)
	}
	f()
}

func setProcs(n int) int {
	if n > 0 {
		return runtime.GOMAXPROCS(n)
	}
	return 0
}

// withProcsNoSet runs f; used where GOMAXPROCS has been set once for a whole concurrent round.
func withProcsNoSet(f func()) { f() }

type queryObserverKey struct{}

// WithQueryObserver returns a context that makes execOn hand the created query object to f before
// it calls Exec (used to drive Cancel/Close from other goroutines).
func WithQueryObserver(ctx context.Context, f func(promql.Query)) context.Context {
	return context.WithValue(ctx, queryObserverKey{}, f)
}

func execOn(ctx context.Context, e QueryEngine, st storage.Queryable, cfg EngineCfg, q string, w Window, phase func(int32)) ExecOut {
	var out ExecOut
	withProcs(cfg.Procs, func() {
		qry, err := NewQuery(e, st, cfg, q, w)
		if err != nil {
			out = ExecOut{Res: Result{Type: "none", Err: err, ErrClass: classify(err)}, CreateErr: true}
			return
		}
		if f, ok := ctx.Value(queryObserverKey{}).(func(promql.Query)); ok {
			f(qry)
		}
		out.Native = strings.Contains(fmt.Sprintf("%T", qry), "compatibilityQuery")
		res := qry.Exec(ctx)
		if phase != nil {
			phase(1)
		}
		out.Res = Canon(res)
		if claim, ok := ctx.Value(closeClaimKey{}).(func() bool); !ok || claim() {
			qry.Close()
		}
	})
	return out
}

type closeClaimKey struct{}

// WithCloseClaim: execOn closes the query only if claim() returns true. Lets a harness goroutine
// that closes the query itself make sure Close is called exactly once (the Prometheus query behind
// a fallback recycles its point slices on every Close).
func WithCloseClaim(ctx context.Context, claim func() bool) context.Context {
	return context.WithValue(ctx, closeClaimKey{}, claim)
}

// RunEngine executes q on the engine under test.
func RunEngine(ctx context.Context, st storage.Queryable, cfg EngineCfg, q string, w Window) ExecOut {
	e := engine.New(engOpts(cfg, nil))
	var ph func(int32)
	if ms, ok := st.(*Store); ok {
		ph = func(p int32) { ms.Phase.Store(p) }
	}
	return execOn(ctx, e, st, cfg, q, w, ph)
}

// RunReference executes q on the pinned Prometheus engine.
func RunReference(ctx context.Context, st storage.Queryable, cfg EngineCfg, q string, w Window) ExecOut {
	cfg.Procs = 0
	e := promql.NewEngine(refOpts(cfg))
	return execOn(ctx, e, st, cfg, q, w, nil)
}

// RunDistributed executes q through the distributed engine over partitions.
func RunDistributed(ctx context.Context, parts []storage.Queryable, cfg EngineCfg, q string, w Window) ExecOut {
	return RunDistributedPhase(ctx, parts, cfg, q, w, nil)
}

// RunDistributedPhase is RunDistributed with a callback invoked right after Exec returned.
func RunDistributedPhase(ctx context.Context, parts []storage.Queryable, cfg EngineCfg, q string, w Window, phase func(int32)) ExecOut {
	return RunDistributedOver(ctx, emptyQueryable{}, parts, cfg, q, w, phase)
}

// RunDistributedOver gives the distributed engine `global` as its own queryable: the parts of a plan
// that are not distributed (and the fallback) read from it, as in the repository's own tests, where
// it is the union of the partitions.
func RunDistributedOver(ctx context.Context, global storage.Queryable, parts []storage.Queryable, cfg EngineCfg, q string, w Window, phase func(int32)) ExecOut {
	engines := make([]api.RemoteEngine, len(parts))
	for i, p := range parts {
		engines[i] = engine.NewLocalEngine(engOpts(cfg, nil), p)
	}
	de := engine.NewDistributedEngine(engOpts(cfg, nil), api.NewStaticEndpoints(engines))
	// the distributed engine plans over remote engines only; the queryable it is given is unused by
	// distributed leaves but must be non-nil for any local leaf.
	return execOn(ctx, de, global, cfg, q, w, phase)
}

type emptyQueryable struct{}

func (emptyQueryable) Querier(ctx context.Context, mint, maxt int64) (storage.Querier, error) {
	return storage.NoopQuerier(), nil
}

// NativeSupport reports whether the engine evaluates q itself (decided dynamically).
func NativeSupport(q string, w Window) (bool, error) {
	e := engine.New(engOpts(EngineCfg{Fallback: false}, nil))
	qry, err := NewQuery(e, emptyQueryable{}, EngineCfg{}, q, w)
	if err != nil {
		return false, err
	}
	qry.Close()
	return true, nil
}

// ExprType parses q and returns its PromQL type.
func ExprType(q string) (parser.ValueType, error) {
	e, err := parser.ParseExpr(q)
	if err != nil {
		return "", err
	}
	return e.Type(), nil
}
