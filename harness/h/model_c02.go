package h

import (
	"fmt"
	"sort"

	"github.com/prometheus/prometheus/model/value"
	"github.com/prometheus/prometheus/promql/parser"
)

// SelectorModel is an independent executable statement of C02: for a bare selector (possibly in
// parentheses or under unary plus) it computes the result directly from the stored samples:
// at every step, for each matching series, the most recent sample at or before the reference time
// (step, or the @ pin, minus the offset), unless it is older than the lookback delta or a
// staleness marker. It shares no code with either engine.
func SelectorModel(c Case) (Result, bool) {
	expr, err := parser.ParseExpr(c.Query)
	if err != nil {
		return Result{}, false
	}
	for {
		switch e := expr.(type) {
		case *parser.ParenExpr:
			expr = e.Expr
			continue
		case *parser.UnaryExpr:
			if e.Op == parser.ADD {
				expr = e.Expr
				continue
			}
		}
		break
	}
	vs, ok := expr.(*parser.VectorSelector)
	if !ok {
		return Result{}, false
	}
	L := c.Engine.QueryLookbackMs
	if L == 0 {
		L = effLookback(c.Engine.LookbackMs)
	}
	w := c.Window
	res := Result{Type: "matrix"}
	if w.Instant() {
		res.Type = "vector"
	}
	for _, s := range c.Dataset.Series {
		ls := s.Lset()
		if !matchSeries(ls, vs.LabelMatchers) {
			continue
		}
		sm := append([]Sample(nil), s.Samples...)
		sort.SliceStable(sm, func(i, j int) bool { return sm[i].T < sm[j].T })
		rs := RSeries{Labels: ls}
		for k := 0; k < w.Steps(); k++ {
			t := w.StartMs + int64(k)*w.StepMs
			ref := t
			switch {
			case vs.Timestamp != nil:
				ref = *vs.Timestamp
			case vs.StartOrEnd == parser.START:
				ref = w.StartMs
			case vs.StartOrEnd == parser.END:
				ref = w.EndMs
			}
			ref -= vs.OriginalOffset.Milliseconds()
			// latest sample with T <= ref
			i := sort.Search(len(sm), func(i int) bool { return sm[i].T > ref }) - 1
			if i < 0 || sm[i].T < ref-L || value.IsStaleNaN(sm[i].V) {
				continue
			}
			rs.Points = append(rs.Points, RPoint{T: t, V: sm[i].V})
		}
		if len(rs.Points) > 0 {
			res.Series = append(res.Series, rs)
		}
	}
	return res, true
}

func c02Extra(c Case, eng, ref ExecOut, o *Outcome) {
	m, ok := SelectorModel(c)
	if !ok || ref.Res.Err != nil {
		return
	}
	o.Count("model_evaluations", 1)
	if d := Compare(ref.Res, m); d != nil {
		o.Add("model-vs-reference", fmt.Sprintf("the independent selection model disagrees with the REFERENCE engine (harness/model defect, not an engine verdict): %s\n  reference: %s\n  model:     %s", d.Detail, ref.Res, m))
		return
	}
	if d := Compare(eng.Res, m); d != nil {
		o.Add("model:"+d.Rule, fmt.Sprintf("differs from the independent selection model: %s\n  engine: %s\n  model:  %s", d.Detail, eng.Res, m))
	}
}
