package h

import (
	"context"
	"sync"

	"github.com/prometheus/prometheus/model/labels"
	"github.com/prometheus/prometheus/promql/parser"

	"github.com/thanos-community/promql-engine/execution"
	"github.com/thanos-community/promql-engine/execution/model"
	"github.com/thanos-community/promql-engine/query"
)

// wrapMu serialises users of the global operator-wrapper hook inside one worker process.
var wrapMu sync.Mutex

// WithWrapper runs f with execution.OperatorWrapper set to w (hook 1 of MANIFEST.hooks).
func WithWrapper(w func(op model.VectorOperator, expr parser.Expr, opts *query.Options) model.VectorOperator, f func()) {
	wrapMu.Lock()
	defer wrapMu.Unlock()
	execution.OperatorWrapper = w
	defer func() { execution.OperatorWrapper = nil }()
	f()
}

// PlanSeries runs the query on the engine with a transparent wrapper and returns, for every
// vector-vector binary operator of the plan, the series lists its two operands declare.
type JoinSides struct {
	Expr     *parser.BinaryExpr
	LHS, RHS []labels.Labels
}

func PlanJoinSides(c Case) []JoinSides {
	var out []JoinSides
	byExpr := map[parser.Expr]model.VectorOperator{}
	var bins []*parser.BinaryExpr
	WithWrapper(func(op model.VectorOperator, expr parser.Expr, _ *query.Options) model.VectorOperator {
		byExpr[expr] = op
		if b, ok := expr.(*parser.BinaryExpr); ok && b.LHS.Type() == parser.ValueTypeVector && b.RHS.Type() == parser.ValueTypeVector {
			bins = append(bins, b)
		}
		return op
	}, func() {
		RunEngine(context.Background(), NewStore(c.Dataset, c.Store), c.Engine, c.Query, c.Window)
	})
	for _, b := range bins {
		l, r := byExpr[b.LHS], byExpr[b.RHS]
		if l == nil || r == nil {
			continue
		}
		ls, err1 := l.Series(context.Background())
		rs, err2 := r.Series(context.Background())
		if err1 != nil || err2 != nil {
			continue
		}
		out = append(out, JoinSides{Expr: b, LHS: ls, RHS: rs})
	}
	return out
}
