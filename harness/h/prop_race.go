package h

import (
	"context"
	"fmt"
	"runtime"
	"sort"
	"strings"
	"sync"
	"time"

	"github.com/prometheus/prometheus/storage"

	"github.com/thanos-community/promql-engine/api"
	"github.com/thanos-community/promql-engine/engine"
)

// C12: concurrent queries on one engine are race-free and isolated. Runs under the race detector
// in race-pure mode (DESIGN §3): the store keeps no shared mutable monitor state, no operator
// wrapper is installed and the hook callback is stateless.

type c12Prop struct{}

func (c12Prop) ID() string     { return "C12" }
func (c12Prop) Race() bool     { return true }
func (c12Prop) BatchSize() int { return 6 }
func (c12Prop) Rule() string {
	return "case = one round: K in {2,8,32} goroutines (48 in heavy rounds: 3-4 nested aggregations over 24x the series) create, execute and close queries in a loop on ONE engine (local, or distributed over 2 shared partitions) and ONE shared immutable store that hands the same label slices to everybody; query texts mix same/different, instant/range, native/fallback, and in half of the rounds are new to the process and first met by all goroutines at once; a round that does not finish within 2 minutes is a hang (goroutine dump attached); half of the rounds run with stateless yield/sleep perturbation at the hook points and in storage callbacks; the binary is built with -race (reports are read from GORACE log_path, de-duplicated by engine entry-point pair) and every concurrent result is compared with the solo result of the same query; non-trivial iff at least two Exec calls overlapped in time; distinct by content hash"
}
func (c12Prop) NumCases(tier string) int {
	if tier == "thorough" {
		return 6000
	}
	return 480
}

var c12Pool = []string{
	`m0`, `sum by (a) (m0)`, `rate(m0[1m])`, `sum(rate(m0[1m]))`, `m0 * on(a) group_left m1`, `topk(2, m0)`, `-m0`, `sum by (a) (-m0)`,
	`histogram_quantile(0.9, h_bucket)`, `m0 > 5`, `quantile by (a) (0.5, m0)`, `max(sum by (a) (m0))`, `abs(m0) + on(a,b) m0`,
	`m0{a="x"} + on(a,b) m0`, `sort_desc(m0)`, `m0 and on(a) m1`, `max_over_time(m0[2m:30s])`, `clamp_min(m0, 3)`, `m0 offset 1m`, `m0 @ 3660`,
}

var c12Nested = []string{
	`max(sum by (a) (max by (a, b) (m0)))`, `sum(count by (a) (sum by (a, b) (rate(m0[1m]))))`, `max by (a) (sum by (a, b) (-m0)) / on(a) group_left sum by (a) (m1)`,
	`sum(max by (b) (sum by (a, b) (m0 * 2)))`, `count(topk(3, sum by (a, b, c) (m0)))`, `min(max by (a) (min by (a, b) (max by (a, b, c) (m0))))`,
}

func (c12Prop) Gen(seed uint64, tier string, i int) Case {
	r := NewRng(seed, 12, uint64(i))
	c := Case{Prop: "C12", Kind: "concurrent-round", Seed: seed, Index: i, Dataset: faultDataset()}
	k := []int{2, 8, 32}[i%3]
	c.Engine = EngineCfg{Fallback: true, Opt: Pick(r, []string{"none", "default", "all"}), Procs: Pick(r, []int{4, 8, 16})}
	nq := 1 + r.Intn(5)
	for j := 0; j < nq; j++ {
		c.Queries = append(c.Queries, Pick(r, c12Pool))
	}
	if r.P(0.25) {
		c.NParts = 2
		c.Engine.Opt = "none"
	} else if r.P(0.12) {
		// heavy round: many goroutines, deeply nested plans over a few hundred series, so that whatever
		// the queries share process-wide (slots, pools, worker groups) is contended and held nested
		k = 48
		c.Queries = nil
		for j := 0; j < 3; j++ {
			c.Queries = append(c.Queries, Pick(r, c12Nested))
		}
		c.Extra = map[string]any{"heavy": true}
	}
	if c.Extra == nil {
		c.Extra = map[string]any{}
	}
	c.Extra["k"], c.Extra["iters"] = float64(k), float64(2+r.Intn(3))
	if r.P(0.5) {
		// texts nobody in this process has planned before, first met by all goroutines at once: state
		// keyed by the query text (plan caches, memo tables) is filled under contention
		tag := fmt.Sprintf("r%d-%d", seed, i)
		for j, q := range c.Queries {
			c.Queries[j] = freshText(q, tag)
		}
		c.Extra["solo_last"] = true
	}
	if r.P(0.5) {
		c.Extra["perturb"] = float64(1 + r.Uint64()%1000000)
	}
	return c
}

// freshText adds a matcher that excludes nothing but makes the text of every selector of m0 unique.
func freshText(q, tag string) string {
	var b strings.Builder
	for i := 0; i < len(q); i++ {
		if strings.HasPrefix(q[i:], "m0") && (i == 0 || !isIdentChar(q[i-1])) && (i+2 == len(q) || !isIdentChar(q[i+2])) {
			b.WriteString("m0")
			i += 2
			if i < len(q) && q[i] == '{' {
				b.WriteString(`{nosuch!="` + tag + `",`)
			} else {
				b.WriteString(`{nosuch!="` + tag + `"}`)
				i--
			}
			continue
		}
		b.WriteByte(q[i])
	}
	return b.String()
}

func isIdentChar(c byte) bool {
	return c == '_' || c == ':' || c >= 'a' && c <= 'z' || c >= 'A' && c <= 'Z' || c >= '0' && c <= '9'
}

type span struct{ a, b int64 }

func maxOverlap(spans []span) int {
	type ev struct {
		t int64
		d int
	}
	var evs []ev
	for _, s := range spans {
		evs = append(evs, ev{s.a, 1}, ev{s.b, -1})
	}
	sort.Slice(evs, func(i, j int) bool {
		if evs[i].t != evs[j].t {
			return evs[i].t < evs[j].t
		}
		return evs[i].d < evs[j].d
	})
	cur, best := 0, 0
	for _, e := range evs {
		cur += e.d
		if cur > best {
			best = cur
		}
	}
	return best
}

func (c12Prop) Check(c Case) Outcome {
	var o Outcome
	k, iters := 4, 2
	if v, ok := c.Extra["k"].(float64); ok {
		k = int(v)
	}
	if v, ok := c.Extra["iters"].(float64); ok {
		iters = int(v)
	}
	pert, perturbed := c.Extra["perturb"].(float64) // storage-callback perturbation of this round
	so := StoreOpts{Pure: true}
	if perturbed {
		so.PerturbSeed = uint64(pert)
	}
	if heavy, _ := c.Extra["heavy"].(bool); heavy {
		base := c.Dataset
		c.Dataset = Dataset{}
		for rep := 0; rep < 24; rep++ {
			for _, s := range base.Series {
				ls := map[string]string{"c": fmt.Sprint(rep)}
				for k, v := range s.Labels {
					ls[k] = v
				}
				c.Dataset.Series = append(c.Dataset.Series, Series{Labels: ls, Samples: s.Samples})
			}
		}
		c.Dataset.Normalize()
	}
	var eng QueryEngine
	var st storage.Queryable
	var stores []*Store
	withProcs(c.Engine.Procs, func() {
		if c.NParts > 0 {
			var engines []api.RemoteEngine
			for _, d := range splitDataset(c.Dataset, c.NParts) {
				ps := NewStore(d, so)
				stores = append(stores, ps)
				engines = append(engines, engine.NewLocalEngine(engOpts(c.Engine, nil), ps))
			}
			eng = engine.NewDistributedEngine(engOpts(c.Engine, nil), api.NewStaticEndpoints(engines))
		} else {
			eng = engine.New(engOpts(c.Engine, nil))
		}
	})
	gs := NewStore(c.Dataset, so)
	stores = append(stores, gs)
	st = gs
	windows := []Window{faultWindow(false), faultWindow(true)}
	type job struct {
		q string
		w Window
	}
	var jobs []job
	for _, q := range c.Queries {
		for _, w := range windows {
			jobs = append(jobs, job{q, w})
		}
	}
	solo := make([]Result, len(jobs))
	run := func(j job) Result {
		var out ExecOut
		cfg := c.Engine
		cfg.Procs = 0 // GOMAXPROCS is set once for the whole round
		qry, err := NewQuery(eng, st, cfg, j.q, j.w)
		if err != nil {
			return Result{Type: "none", Err: err, ErrClass: classify(err)}
		}
		res := qry.Exec(context.Background())
		// The caller still holds the result: a Cancel after Exec has returned, and whatever the
		// other goroutines do meanwhile, must not touch it.
		qry.Cancel()
		for y := 0; y < 3; y++ {
			runtime.Gosched()
		}
		out.Res = Canon(res)
		qry.Close()
		return out.Res
	}
	body := func() {
		old := setProcs(c.Engine.Procs)
		defer setProcs(old)
		soloLast, _ := c.Extra["solo_last"].(bool)
		if !soloLast {
			for i, j := range jobs {
				solo[i] = run(j)
			}
		}
		var wg sync.WaitGroup
		spans := make([][]span, k)
		diffs := make([]string, k)
		results := make([][]Result, k)
		which := make([][]int, k)
		for g := 0; g < k; g++ {
			wg.Add(1)
			go func(g int) {
				defer wg.Done()
				for it := 0; it < iters; it++ {
					ji := (g + it*7) % len(jobs)
					t0 := nanotime()
					got := run(jobs[ji])
					spans[g] = append(spans[g], span{t0, nanotime()})
					results[g] = append(results[g], got)
					which[g] = append(which[g], ji)
				}
			}(g)
		}
		wg.Wait()
		if soloLast {
			for i, j := range jobs {
				solo[i] = run(j)
			}
		}
		for g := range results {
			for n, got := range results[g] {
				ji := which[g][n]
				if d := Compare(got, solo[ji]); d != nil && diffs[g] == "" {
					diffs[g] = fmt.Sprintf("goroutine %d, query `%s` %v: concurrent result differs from its solo result: %s\n  concurrent: %s\n  solo:       %s", g, jobs[ji].q, jobs[ji].w, d.Detail, got, solo[ji])
				}
			}
		}
		var all []span
		for _, s := range spans {
			all = append(all, s...)
		}
		ov := maxOverlap(all)
		o.Count("executions", int64(len(all)))
		o.Count("max_concurrent_exec", int64(ov))
		o.Tag(fmt.Sprintf("overlap:%d", ov))
		o.NonTrivial = ov >= 2
		for _, d := range diffs {
			if d != "" {
				cc := c
				o.Add("isolation", d)
				_ = cc
				break
			}
		}
	}
	InstallPurePerturbation()
	finished := make(chan struct{})
	go func() {
		defer close(finished)
		body()
	}()
	select {
	case <-finished:
	case <-time.After(2 * time.Minute):
		// generous: a heavy round takes seconds; nothing ends a round in which the queries wait for each other
		o.Add("hang", fmt.Sprintf("the round of %d goroutines did not finish within 2 minutes: concurrent queries wait for each other\n%s", k, strings.Join(scanGoroutines(), "\n\n")))
		return o
	}
	for _, s := range stores {
		for _, m := range s.VerifyPristine() {
			o.Add("storage-labels-modified", m)
		}
	}
	return o
}

func init() { Register(c12Prop{}) }
