// Package h is the in-process part of the runtime-monitoring harness: datasets, the
// instrumented storage (MonStore), engine/reference runners, comparators, generators
// and the per-property monitors.
package h

import (
	"encoding/json"
	"fmt"
	"math"
	"sort"
	"strconv"

	"github.com/prometheus/prometheus/model/labels"
	"github.com/prometheus/prometheus/model/value"
)

// StaleNaN is the staleness-marker value.
var StaleNaN = math.Float64frombits(value.StaleNaN)

// F is a float64 that survives JSON (NaN, Inf, staleness marker, -0).
type F float64

func fmtF(v float64) string {
	switch {
	case value.IsStaleNaN(v):
		return "stale"
	case math.IsNaN(v):
		return "NaN"
	case math.IsInf(v, 1):
		return "+Inf"
	case math.IsInf(v, -1):
		return "-Inf"
	}
	return strconv.FormatFloat(v, 'g', -1, 64)
}

func parseF(s string) (float64, error) {
	switch s {
	case "stale":
		return StaleNaN, nil
	case "NaN":
		return math.NaN(), nil
	case "+Inf":
		return math.Inf(1), nil
	case "-Inf":
		return math.Inf(-1), nil
	}
	return strconv.ParseFloat(s, 64)
}

func (f F) MarshalJSON() ([]byte, error) { return json.Marshal(fmtF(float64(f))) }
func (f *F) UnmarshalJSON(b []byte) error {
	var s string
	if err := json.Unmarshal(b, &s); err != nil {
		var x float64
		if err2 := json.Unmarshal(b, &x); err2 != nil {
			return err
		}
		*f = F(x)
		return nil
	}
	v, err := parseF(s)
	*f = F(v)
	return err
}

// Sample is one stored sample.
type Sample struct {
	T int64
	V float64
}

func (s Sample) MarshalJSON() ([]byte, error) {
	return []byte(fmt.Sprintf("[%d,%q]", s.T, fmtF(s.V))), nil
}

func (s *Sample) UnmarshalJSON(b []byte) error {
	var raw []json.RawMessage
	if err := json.Unmarshal(b, &raw); err != nil {
		return err
	}
	if len(raw) != 2 {
		return fmt.Errorf("sample needs 2 elements")
	}
	if err := json.Unmarshal(raw[0], &s.T); err != nil {
		return err
	}
	var f F
	if err := json.Unmarshal(raw[1], &f); err != nil {
		return err
	}
	s.V = float64(f)
	return nil
}

// Series is one stored series.
type Series struct {
	Labels  map[string]string `json:"labels"`
	Samples []Sample          `json:"samples"`
}

func (s Series) Lset() labels.Labels { return labels.FromMap(s.Labels) }

// Dataset is the stored data of a case.
type Dataset struct {
	Series []Series `json:"series"`
}

// Clone deep-copies a dataset.
func (d Dataset) Clone() Dataset {
	out := Dataset{Series: make([]Series, len(d.Series))}
	for i, s := range d.Series {
		ls := make(map[string]string, len(s.Labels))
		for k, v := range s.Labels {
			ls[k] = v
		}
		out.Series[i] = Series{Labels: ls, Samples: append([]Sample(nil), s.Samples...)}
	}
	return out
}

// Normalize sorts samples by time, drops duplicate timestamps and duplicate label sets.
func (d *Dataset) Normalize() {
	seen := map[string]bool{}
	out := d.Series[:0]
	for _, s := range d.Series {
		k := s.Lset().String()
		if seen[k] {
			continue
		}
		seen[k] = true
		sort.SliceStable(s.Samples, func(i, j int) bool { return s.Samples[i].T < s.Samples[j].T })
		sm := s.Samples[:0]
		for i, x := range s.Samples {
			if i > 0 && x.T == s.Samples[i-1].T {
				continue
			}
			sm = append(sm, x)
		}
		s.Samples = sm
		out = append(out, s)
	}
	d.Series = out
}

// Window is an evaluation window; StepMs == 0 means an instant query at StartMs.
type Window struct {
	StartMs int64 `json:"start_ms"`
	EndMs   int64 `json:"end_ms"`
	StepMs  int64 `json:"step_ms"`
}

func (w Window) Instant() bool { return w.StepMs == 0 }
func (w Window) Steps() int {
	if w.StepMs == 0 {
		return 1
	}
	return int((w.EndMs-w.StartMs)/w.StepMs) + 1
}

// Rng is splitmix64; every case derives its own from (seed, property, index).
type Rng struct{ s uint64 }

func NewRng(parts ...uint64) *Rng {
	r := &Rng{s: 0x9e3779b97f4a7c15}
	for _, p := range parts {
		r.s ^= p + 0x9e3779b97f4a7c15 + (r.s << 6) + (r.s >> 2)
		r.Uint64()
	}
	return r
}

func (r *Rng) Uint64() uint64 {
	r.s += 0x9e3779b97f4a7c15
	z := r.s
	z = (z ^ (z >> 30)) * 0xbf58476d1ce4e5b9
	z = (z ^ (z >> 27)) * 0x94d049bb133111eb
	return z ^ (z >> 31)
}

func (r *Rng) Intn(n int) int {
	if n <= 0 {
		return 0
	}
	return int(r.Uint64() % uint64(n))
}
func (r *Rng) Int63n(n int64) int64 {
	if n <= 0 {
		return 0
	}
	return int64(r.Uint64() % uint64(n))
}
func (r *Rng) Float() float64   { return float64(r.Uint64()>>11) / (1 << 53) }
func (r *Rng) P(p float64) bool { return r.Float() < p }
func (r *Rng) Fork() *Rng       { return &Rng{s: r.Uint64()} }

func Pick[T any](r *Rng, xs []T) T { return xs[r.Intn(len(xs))] }

// PropNum maps "C07" to 7 for seeding.
func PropNum(p string) uint64 {
	n, _ := strconv.Atoi(p[1:])
	return uint64(n)
}
