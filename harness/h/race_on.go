//go:build race

package h

// raceBuild: the binary is built with the race detector. Monitors that write shared hook state
// around a run are not installed there (they would be the race).
const raceBuild = true
