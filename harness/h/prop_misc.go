package h

import (
	"context"
	"errors"
	"fmt"
	"github.com/prometheus/prometheus/storage"
	"math"
	"runtime"
	"sort"
	"strings"

	"github.com/prometheus/client_golang/prometheus"
	dto "github.com/prometheus/client_model/go"
	"github.com/prometheus/prometheus/promql"
	"github.com/prometheus/prometheus/promql/parser"

	"github.com/thanos-community/promql-engine/api"
	"github.com/thanos-community/promql-engine/engine"
	"github.com/thanos-community/promql-engine/execution/parse"
)

// ---------------------------------------------------------------------------------------------
// C19: every successful result is well-formed (dedicated run with hostile values; no value oracle)

type c19Prop struct{ gen *diffProp }

func (c19Prop) ID() string     { return "C19" }
func (c19Prop) BatchSize() int { return 400 }
func (c19Prop) Rule() string {
	return "case = a case of the C01 generator whose dataset is salted with NaN, +/-Inf, -0, 1e308, -1e308 and denormals and whose labels collide after name removal; every successful result of the engine (native and fallback) is checked structurally: sorted matrix, distinct label sets, non-empty series, strictly increasing on-grid timestamps, instant type and timestamps, sorted/non-empty/non-repeated labels, no staleness marker; values are not compared; non-trivial iff the result is successful and non-empty; distinct by content hash"
}
func (c19Prop) NumCases(tier string) int {
	if tier == "thorough" {
		return 600000
	}
	return 30000
}

var extremeValues = []float64{math.NaN(), math.Inf(1), math.Inf(-1), math.Copysign(0, -1), 1e308, -1e308, 5e-324, 1e-310, 1.7976931348623157e308, StaleNaN}

func (p c19Prop) Gen(seed uint64, tier string, i int) Case {
	c := p.gen.Gen(seed^0x19, tier, i)
	c.Prop, c.Seed, c.Kind = "C19", seed, "well-formed"
	r := NewRng(seed, 19, uint64(i))
	for si := range c.Dataset.Series {
		sm := c.Dataset.Series[si].Samples
		for k := range sm {
			if r.P(0.12) {
				sm[k].V = Pick(r, extremeValues)
			}
		}
	}
	c.Engine.Fallback = r.P(0.3)
	return c
}

func (c19Prop) Check(c Case) Outcome {
	var o Outcome
	et, err := ExprType(c.Query)
	if err != nil {
		o.Skipped = "unparsable"
		return o
	}
	var res ExecOut
	if c.NParts > 0 {
		// a share of the cases goes through the distributed engine: its results are PromQL values too
		var parts []storage.Queryable
		for _, d := range partition(c) {
			parts = append(parts, NewStore(d, c.Store))
		}
		res = RunDistributedOver(context.Background(), NewStore(c.Dataset, c.Store), parts, c.Engine, c.Query, c.Window, nil)
		o.Count("distributed", 1)
	} else {
		res = RunEngine(context.Background(), NewStore(c.Dataset, c.Store), c.Engine, c.Query, c.Window)
	}
	if res.CreateErr {
		o.Skipped = "not created: " + fmt.Sprint(res.Res.Err)
		return o
	}
	if res.Native {
		o.Count("native", 1)
	} else {
		o.Count("fallback", 1)
	}
	o.NonTrivial = res.Res.Err == nil && len(res.Res.Series) > 0
	var cand []Violation
	for _, d := range WellFormed(res.Res, c.Window, string(et)) {
		cand = append(cand, Violation{d.Rule, d.Detail + "\n  result: " + res.Res.String()})
	}
	if len(cand) > 0 && InKnownClass(c, &o) {
		return o
	}
	o.Violations = cand
	o.Tag("type:" + res.Res.Type)
	return o
}

// ---------------------------------------------------------------------------------------------
// C20: no state leaks between queries; returned results stay untouched (sequential histories)

type c20Prop struct{}

func (c20Prop) ID() string     { return "C20" }
func (c20Prop) BatchSize() int { return 20 }
func (c20Prop) Rule() string {
	return "case = one history of 12..50 operations on ONE long-lived engine over one growing store: queries (repeated, new, failing, cancelled, fallback; instant and range; a fifth with per-query options), queries whose storage fails or panics while their series are loaded (a few per history, most of the operations in 12% bad-day histories of 60-90 operations), appends of samples and of series, late Close of earlier queries, forced GC; after every query its result is compared with a freshly constructed engine on the current data, and after every operation all earlier results are re-canonicalised and compared bit for bit with the deep snapshot taken when they were returned; non-trivial iff the history contains >= 3 successful non-empty query results and >= 1 append; distinct by content hash"
}
func (c20Prop) NumCases(tier string) int {
	if tier == "thorough" {
		return 40000
	}
	return 3000
}

func (c20Prop) Gen(seed uint64, tier string, i int) Case {
	r := NewRng(seed, 20, uint64(i))
	c := Case{Prop: "C20", Kind: "history", Seed: seed, Index: i}
	c.Window = Window{StartMs: 3_600_000, EndMs: 3_600_000 + int64(5+r.Intn(30))*30_000, StepMs: 30_000}
	c.Engine = EngineCfg{Fallback: true, Opt: Pick(r, []string{"none", "default", "all"}), Procs: Pick(r, []int{2, 4, 8})}
	c.Dataset = GenDataset(r.Fork(), c.Window, 0, 10, false, false)
	g := &GenCfg{Avoid: mergeAvoid(), MaxDepth: 3, W: c.Window}
	pool := []string{`sum by (a) (m0)`, `m0`, `rate(m0[1m])`, `sort_desc(m0)`, `m0 + on(a) m1`, `topk(2, m0)`, `max_over_time(m0[2m:30s])`, `m0 and m1`,
		`sum_over_time(m0[5m])`, `rate(m0[10m])`, `count_over_time(m0[30s])`, `sum by (a) (increase(m1[3m]))`,
		// pinned parts (the pinned time lies inside the stored data, which keeps growing) and joins that build label sets
		`m0 @ 3630`, `sum(m0 @ 3660) + count(m1)`, `m0 - on(a, b, c) m0 @ 3615`, `m0 > on(a) group_left(b) m1`, `m1 <= on(a) group_right(c) m0`}
	for k := 0; k < 4; k++ {
		pool = append(pool, GenQuery(r.Fork(), g))
	}
	c.Queries = pool
	c.Extra = map[string]any{"ops": float64(12 + r.Intn(39)), "hseed": float64(r.Uint64() % (1 << 50))}
	if r.P(0.12) {
		// a bad day of the storage: most queries of a longer history fail while their series are loaded
		c.Extra["ops"] = float64(60 + r.Intn(30))
		c.Extra["store_failures"] = 0.6
	}
	return c
}

type heldResult struct {
	live   *promql.Result
	snap   Result
	desc   string
	qry    promql.Query
	native bool
	dead   bool // fallback result whose query was closed: the Prometheus Query contract recycles it
}

func exactEqual(a, b Result) string {
	if (a.Err == nil) != (b.Err == nil) || a.Type != b.Type || len(a.Series) != len(b.Series) {
		return fmt.Sprintf("shape changed: %s -> %s", a, b)
	}
	for i := range a.Series {
		if a.Series[i].Labels.String() != b.Series[i].Labels.String() || len(a.Series[i].Points) != len(b.Series[i].Points) {
			return fmt.Sprintf("series %d changed: %s%v -> %s%v", i, a.Series[i].Labels, ptsStr(a.Series[i].Points), b.Series[i].Labels, ptsStr(b.Series[i].Points))
		}
		for j := range a.Series[i].Points {
			p, q := a.Series[i].Points[j], b.Series[i].Points[j]
			if p.T != q.T || math.Float64bits(p.V) != math.Float64bits(q.V) {
				return fmt.Sprintf("series %s point %d changed: %s@%d -> %s@%d", a.Series[i].Labels, j, fmtF(p.V), p.T, fmtF(q.V), q.T)
			}
		}
	}
	return ""
}

func (c20Prop) Check(c Case) Outcome {
	var o Outcome
	nops := 20
	if v, ok := c.Extra["ops"].(float64); ok {
		nops = int(v)
	}
	hs, _ := c.Extra["hseed"].(float64)
	r := NewRng(uint64(hs), 2020)
	store := NewStore(c.Dataset, StoreOpts{})
	var long QueryEngine
	withProcs(c.Engine.Procs, func() { long = engine.New(engOpts(c.Engine, nil)) })
	var held []heldResult
	lastT := c.Window.EndMs
	okResults, appends := 0, 0
	var trace []string
	recheck := func(after string) bool {
		for _, h := range held {
			if h.dead {
				continue
			}
			now := Canon(h.live)
			if d := exactEqual(h.snap, now); d != "" {
				o.Add("result-mutated", fmt.Sprintf("the result of %s changed after %s: %s\n  history: %s", h.desc, after, d, strings.Join(trace, " ; ")))
				return false
			}
		}
		o.Count("snapshot_rechecks", int64(len(held)))
		return true
	}
	for k := 0; k < nops; k++ {
		switch x := r.Intn(10); {
		case x < 6: // query
			q := Pick(r, c.Queries)
			w := c.Window
			if r.P(0.35) {
				t := c.Window.StartMs + int64(r.Intn(c.Window.Steps()))*c.Window.StepMs
				w = Window{StartMs: t, EndMs: t}
			}
			cancelled := r.P(0.12)
			qcfg := c.Engine
			if r.P(0.2) {
				// options of this query only: the next query without options is back to the engine's settings
				qcfg.QueryLookbackMs = Pick(r, []int64{1000, 30_000, 60_000, 420_001})
			}
			pFail := 0.06
			if v, ok := c.Extra["store_failures"].(float64); ok {
				pFail = v
			}
			if r.P(pFail) {
				// the storage fails (or panics) while this query opens its querier or selects its series;
				// the query must fail, and nothing of it may stay behind in the engine
				f := Fault{Kind: Pick(r, []string{"err", "err", "panic-runtime", "panic-string"}), Call: Pick(r, []string{"Querier", "Select", "SS.Next"}), Series: -1, Nth: 1}
				desc := fmt.Sprintf("op%d query `%s` %v with storage fault %s@%s", k, q, w, f.Kind, f.Call)
				trace = append(trace, desc)
				var res *promql.Result
				func() {
					defer func() {
						if e := recover(); e != nil {
							o.Add("panic-escaped", fmt.Sprintf("%s: a panic escaped Exec: %v", desc, e))
						}
					}()
					withProcs(c.Engine.Procs, func() {
						fq, err := NewQuery(long, store.WithFaults([]Fault{f}), qcfg, q, w)
						if err != nil {
							return
						}
						res = fq.Exec(context.Background())
						fq.Close()
					})
				}()
				o.Count("store_failures_injected", 1)
				if res != nil && res.Err == nil && len(o.Violations) == 0 {
					// the fault address may not be reached (e.g. a query without selectors): fine
					o.Count("store_failures_not_reached", 1)
				}
				if !recheck(desc) {
					return o
				}
				continue
			}
			desc := fmt.Sprintf("op%d query `%s` %v cancelled=%v lookback=%dms", k, q, w, cancelled, qcfg.QueryLookbackMs)
			trace = append(trace, desc)
			var live *promql.Result
			var qry promql.Query
			var cerr error
			withProcs(c.Engine.Procs, func() {
				qry, cerr = NewQuery(long, store, qcfg, q, w)
				if cerr != nil {
					return
				}
				ctx, cancel := context.WithCancel(context.Background())
				if cancelled {
					cancel()
				}
				live = qry.Exec(ctx)
				cancel()
			})
			if cerr != nil {
				// creation errors must be the same on a fresh engine
				_, ferr := NewQuery(engine.New(engOpts(c.Engine, nil)), store, qcfg, q, w)
				if ferr == nil {
					o.Add("stateful-creation", fmt.Sprintf("%s: creation fails on the long-lived engine (%v) but succeeds on a fresh one\n  history: %s", desc, cerr, strings.Join(trace, " ; ")))
					return o
				}
				continue
			}
			got := Canon(live)
			if !cancelled {
				fresh := RunEngine(context.Background(), store, qcfg, q, w)
				o.Count("fresh_comparisons", 1)
				if d := Compare(got, fresh.Res); d != nil {
					cc := c
					cc.Query, cc.Window = q, w
					var tmp Outcome
					if Excuse(cc, got, fresh.Res, d, &tmp) == "" && !InKnownClass(cc, &tmp) {
						o.Add("stateful-result", fmt.Sprintf("%s: the long-lived engine answers differently from a fresh engine on the same data: %s\n  long-lived: %s\n  fresh:      %s\n  history: %s", desc, d.Detail, got, fresh.Res, strings.Join(trace, " ; ")))
						return o
					}
				}
				if got.Err == nil && len(got.Series) > 0 {
					okResults++
				}
			} else if got.Err == nil {
				// a pre-cancelled query may legitimately complete only with the full result
				fresh := RunEngine(context.Background(), store, qcfg, q, w)
				if d := Compare(got, fresh.Res); d != nil {
					o.Add("cancelled-partial", fmt.Sprintf("%s: cancelled query returned a successful result different from the full one: %s", desc, d.Detail))
					return o
				}
			}
			native := strings.Contains(fmt.Sprintf("%T", qry), "compatibilityQuery")
			held = append(held, heldResult{live: live, snap: got, desc: desc, qry: qry, native: native})
			if native {
				o.Count("native_results_held", 1)
			} else {
				o.Count("fallback_results_held_until_close", 1)
			}
			if r.P(0.6) {
				qry.Close()
				held[len(held)-1].qry = nil
				held[len(held)-1].dead = !native
			}
			if !recheck(desc) {
				return o
			}
		case x < 8: // append samples / series
			appends++
			lastT += int64(1+r.Intn(3)) * 15_000
			if r.P(0.7) && len(c.Dataset.Series) > 0 {
				s := c.Dataset.Series[r.Intn(len(c.Dataset.Series))]
				store.Append(Series{Labels: s.Labels, Samples: []Sample{{T: lastT, V: float64(r.Intn(100))}}})
				trace = append(trace, fmt.Sprintf("op%d append sample %v@%d", k, s.Labels, lastT))
			} else {
				ls := map[string]string{"__name__": Pick(r, metricNames), "a": Pick(r, labelValues), "n": fmt.Sprint(k)}
				store.Append(Series{Labels: ls, Samples: []Sample{{T: c.Window.StartMs + 1000, V: 5}, {T: lastT, V: 7}}})
				trace = append(trace, fmt.Sprintf("op%d append series %v", k, ls))
			}
			if !recheck("an append") {
				return o
			}
		case x < 9: // late close of an earlier query
			for i := range held {
				if held[i].qry != nil {
					held[i].qry.Close()
					held[i].qry = nil
					held[i].dead = !held[i].native
					trace = append(trace, fmt.Sprintf("op%d close of %s", k, held[i].desc))
					break
				}
			}
			if !recheck("a late Close") {
				return o
			}
		default:
			runtime.GC()
			runtime.GC()
			trace = append(trace, fmt.Sprintf("op%d gc", k))
			if !recheck("a forced GC") {
				return o
			}
		}
	}
	o.Count("operations", int64(nops))
	o.NonTrivial = okResults >= 3 && appends >= 1
	return o
}

// ---------------------------------------------------------------------------------------------
// C08: totality over the whole vocabulary: fallback, never degrade; per-path counter

type c08Prop struct{}

func (c08Prop) ID() string     { return "C08" }
func (c08Prop) BatchSize() int { return 500 }
func (c08Prop) Rule() string {
	return "case = (construct of the pinned parser's vocabulary - every parser.Functions entry with arguments synthesised from its signature, every aggregation operator, every binary/set operator x modifier, subquery, string literal, top-level range vector - placed in one syntactic position, instant|range, 2 datasets); checked with fallback on (accepted iff the reference accepts; result equals the reference's; counter moves by exactly one under the label of the path taken) and off (unsupported constructs rejected at creation with an error that Is ErrNotSupportedExpr/ErrNotImplemented; supported ones behave as with fallback on; the decision does not depend on data); quick = level-1 vocabulary x positions (exhaustive), thorough adds two-level nesting; non-trivial iff the reference accepts the query"
}

type c08Construct struct {
	Expr string
	Type parser.ValueType
	Feat string
}

func c08Arg(t parser.ValueType, k int) string {
	switch t {
	case parser.ValueTypeVector:
		return []string{"m0", "m1", "h_bucket"}[k%2]
	case parser.ValueTypeMatrix:
		return "m0[2m]"
	case parser.ValueTypeScalar:
		return []string{"2", "0.5", "1"}[k%3]
	case parser.ValueTypeString:
		return []string{`"dst"`, `"$1"`, `"a"`, `"(.*)"`, `"x"`}[k%5]
	}
	return "1"
}

func c08Vocabulary() []c08Construct {
	var out []c08Construct
	var names []string
	for n := range parser.Functions {
		names = append(names, n)
	}
	sort.Strings(names)
	for _, n := range names {
		f := parser.Functions[n]
		var args []string
		for k, t := range f.ArgTypes {
			if f.Variadic != 0 && k >= len(f.ArgTypes)-1 && n != "label_join" && n != "round" {
				// keep optional trailing args out of the minimal form
				if n == "label_join" {
					args = append(args, c08Arg(t, k))
				}
				continue
			}
			args = append(args, c08Arg(t, k))
		}
		switch n {
		case "histogram_quantile":
			args = []string{"0.9", "h_bucket"}
		case "label_replace":
			args = []string{"m0", `"dst"`, `"$1"`, `"a"`, `"(.*)"`}
		case "label_join":
			args = []string{"m0", `"dst"`, `"-"`, `"a"`, `"b"`}
		case "quantile_over_time":
			args = []string{"0.5", "m0[2m]"}
		case "predict_linear":
			args = []string{"m0[2m]", "60"}
		case "holt_winters":
			args = []string{"m0[2m]", "0.5", "0.5"}
		case "clamp":
			args = []string{"m0", "1", "5"}
		case "round":
			args = []string{"m0"}
		}
		out = append(out, c08Construct{Expr: fmt.Sprintf("%s(%s)", n, strings.Join(args, ", ")), Type: f.ReturnType, Feat: "fn:" + n})
		// the same call with its selector argument in parentheses: still the same construct
		for k, a := range args {
			if strings.HasPrefix(a, "m0") || strings.HasPrefix(a, "m1") || strings.HasPrefix(a, "h_bucket") {
				pa := append([]string(nil), args...)
				pa[k] = "(" + a + ")"
				out = append(out, c08Construct{Expr: fmt.Sprintf("%s(%s)", n, strings.Join(pa, ", ")), Type: f.ReturnType, Feat: "fn:" + n})
				break
			}
		}
		if f.Variadic != 0 && len(f.ArgTypes) > 0 {
			switch n {
			case "round":
				out = append(out, c08Construct{Expr: "round(m0, 5)", Type: f.ReturnType, Feat: "fn:round"})
				out = append(out, c08Construct{Expr: "round(m1, 1)", Type: f.ReturnType, Feat: "fn:round"})
				out = append(out, c08Construct{Expr: "round(m1, 0.5)", Type: f.ReturnType, Feat: "fn:round"})
				out = append(out, c08Construct{Expr: "round(m1)", Type: f.ReturnType, Feat: "fn:round"})
			case "days_in_month", "day_of_month", "day_of_week", "day_of_year", "hour", "minute", "month", "year":
				out = append(out, c08Construct{Expr: n + "()", Type: f.ReturnType, Feat: "fn:" + n})
			}
		}
	}
	for _, a := range []string{"sum", "min", "max", "avg", "group", "stddev", "stdvar", "count"} {
		out = append(out, c08Construct{Expr: a + "(m0)", Type: parser.ValueTypeVector, Feat: "agg:" + a})
		out = append(out, c08Construct{Expr: a + " by (a) (m0)", Type: parser.ValueTypeVector, Feat: "agg:" + a})
		out = append(out, c08Construct{Expr: a + " without (a) (m0)", Type: parser.ValueTypeVector, Feat: "agg:" + a})
	}
	out = append(out,
		c08Construct{Expr: `count_values("v", m0)`, Type: parser.ValueTypeVector, Feat: "agg:count_values"},
		c08Construct{Expr: `topk(2, m0)`, Type: parser.ValueTypeVector, Feat: "agg:topk"},
		c08Construct{Expr: `bottomk by (a) (2, m0)`, Type: parser.ValueTypeVector, Feat: "agg:bottomk"},
		c08Construct{Expr: `quantile(0.5, m0)`, Type: parser.ValueTypeVector, Feat: "agg:quantile"},
	)
	for _, op := range []string{"+", "-", "*", "/", "%", "^", "atan2", "==", "!=", ">", "<", ">=", "<="} {
		out = append(out, c08Construct{Expr: fmt.Sprintf("m0 %s m1", op), Type: parser.ValueTypeVector, Feat: "bin"})
		out = append(out, c08Construct{Expr: fmt.Sprintf("m0 %s on(a) group_left m1", op), Type: parser.ValueTypeVector, Feat: "bin"})
		out = append(out, c08Construct{Expr: fmt.Sprintf("m0 %s ignoring(b) m1", op), Type: parser.ValueTypeVector, Feat: "bin"})
		out = append(out, c08Construct{Expr: fmt.Sprintf("m0 %s 2", op), Type: parser.ValueTypeVector, Feat: "bin"})
		out = append(out, c08Construct{Expr: fmt.Sprintf("2 %s m0", op), Type: parser.ValueTypeVector, Feat: "bin"})
		if strings.ContainsAny(op, "=<>") {
			out = append(out, c08Construct{Expr: fmt.Sprintf("m0 %s bool m1", op), Type: parser.ValueTypeVector, Feat: "bin"})
			out = append(out, c08Construct{Expr: fmt.Sprintf("3 %s bool 2", op), Type: parser.ValueTypeScalar, Feat: "bin"})
		} else {
			out = append(out, c08Construct{Expr: fmt.Sprintf("3 %s 2", op), Type: parser.ValueTypeScalar, Feat: "bin"})
		}
	}
	for _, op := range []string{"and", "or", "unless"} {
		out = append(out, c08Construct{Expr: fmt.Sprintf("m0 %s m1", op), Type: parser.ValueTypeVector, Feat: "set"})
		out = append(out, c08Construct{Expr: fmt.Sprintf("m0 %s on(a) m1", op), Type: parser.ValueTypeVector, Feat: "set"})
	}
	out = append(out,
		c08Construct{Expr: `max_over_time(m0[2m:30s])`, Type: parser.ValueTypeVector, Feat: "subquery"},
		c08Construct{Expr: `rate(m0[2m:])`, Type: parser.ValueTypeVector, Feat: "subquery"},
		c08Construct{Expr: `m0[2m:30s]`, Type: parser.ValueTypeMatrix, Feat: "subquery"},
		c08Construct{Expr: `m0[2m]`, Type: parser.ValueTypeMatrix, Feat: "matrix"},
		c08Construct{Expr: `"abc"`, Type: parser.ValueTypeString, Feat: "string"},
		c08Construct{Expr: `m0 offset 1m`, Type: parser.ValueTypeVector, Feat: "sel"},
		c08Construct{Expr: `m0 @ 3700`, Type: parser.ValueTypeVector, Feat: "sel"},
		c08Construct{Expr: `m0 @ start()`, Type: parser.ValueTypeVector, Feat: "sel"},
		c08Construct{Expr: `m0 @ end() offset -30s`, Type: parser.ValueTypeVector, Feat: "sel"},
		c08Construct{Expr: `-m0`, Type: parser.ValueTypeVector, Feat: "unary"},
		c08Construct{Expr: `+m0`, Type: parser.ValueTypeVector, Feat: "unary"},
		c08Construct{Expr: `42`, Type: parser.ValueTypeScalar, Feat: "lit"},
	)
	return out
}

var c08VecPositions = []string{"%s", "abs(%s)", "sum(%s)", "sum by (a) (%s)", "%s + m1", "m1 * %s", "(%s)", "-%s", "%s > 1", "clamp_min(%s, 1)", "topk(1, %s)",
	"histogram_quantile(0.5, %s)", "vector(scalar(%s))", "quantile by (a) (0.5, %s)", "m1 + on(a) group_right %s"}
var c08ScalarPositions = []string{"%s", "clamp_min(m0, %s)", "topk(%s, m0)", "quantile(%s, m0)", "%s + m0", "m0 * %s", "(%s)", "-%s", "vector(%s)", "%s + 1",
	"histogram_quantile(%s, h_bucket)", "clamp(m0, %s, 10)", "m0 > bool %s"}
var c08MatrixPositions = []string{"%s", "rate(%s)", "sum(max_over_time(%s))"}
var c08StringPositions = []string{"%s", "(%s)"}

func c08Level1() []string {
	var qs []string
	for _, c := range c08Vocabulary() {
		pos := c08VecPositions
		switch c.Type {
		case parser.ValueTypeScalar:
			pos = c08ScalarPositions
		case parser.ValueTypeMatrix:
			pos = c08MatrixPositions
		case parser.ValueTypeString:
			pos = c08StringPositions
		}
		for _, p := range pos {
			q := fmt.Sprintf(p, c.Expr)
			if _, err := parser.ParseExpr(q); err == nil {
				qs = append(qs, q)
			}
		}
	}
	return qs
}

var c08L1cache []string

func c08Queries() []string {
	if c08L1cache == nil {
		c08L1cache = c08Level1()
	}
	return c08L1cache
}

func (c08Prop) NumCases(tier string) int {
	n := len(c08Queries()) * 3
	if tier == "thorough" {
		return n + 120000
	}
	return n
}

func (c08Prop) Gen(seed uint64, tier string, i int) Case {
	qs := c08Queries()
	r := NewRng(seed, 8, uint64(i))
	c := Case{Prop: "C08", Kind: "vocabulary", Seed: seed, Index: i}
	rng := Window{StartMs: faultStart, EndMs: faultStart + 21*faultStep, StepMs: faultStep}
	inst := Window{StartMs: faultStart + 10*faultStep, EndMs: faultStart + 10*faultStep}
	one := Window{StartMs: faultStart + 10*faultStep, EndMs: faultStart + 10*faultStep, StepMs: faultStep} // a range query of a single step
	c.Dataset = c08Dataset()
	c.Engine = EngineCfg{Opt: "none", Procs: 4}
	switch {
	case r.P(0.3):
		// a per-query lookback delta: it applies on whichever path answers the query (series that end
		// at step 12 then vanish after 60s instead of 5m)
		c.Engine.QueryLookbackMs = Pick(r, []int64{60_000, 45_000, 420_001})
	case r.P(0.2):
		c.Engine.EmptyQueryOpts = true
	}
	if i < len(qs)*3 {
		c.Query = qs[i/3]
		c.Window = []Window{inst, rng, one}[i%3]
		return c
	}
	// two-level nesting: a construct inside a position inside a position
	voc := c08Vocabulary()
	cc := voc[r.Intn(len(voc))]
	pos := c08VecPositions
	switch cc.Type {
	case parser.ValueTypeScalar:
		pos = c08ScalarPositions
	case parser.ValueTypeMatrix:
		pos = c08MatrixPositions
	case parser.ValueTypeString:
		pos = c08StringPositions
	}
	q := fmt.Sprintf(Pick(r, pos), cc.Expr)
	if e, err := parser.ParseExpr(q); err == nil {
		pp := c08VecPositions
		if e.Type() == parser.ValueTypeScalar {
			pp = c08ScalarPositions
		}
		if e.Type() == parser.ValueTypeVector || e.Type() == parser.ValueTypeScalar {
			q2 := fmt.Sprintf(Pick(r, pp), q)
			if _, err := parser.ParseExpr(q2); err == nil {
				q = q2
			}
		}
	}
	c.Query = q
	c.Window = []Window{inst, rng, one}[r.Intn(3)]
	return c
}

// c08Dataset is the fault-family dataset with m1 carrying negative and half-way values, so that a
// construct evaluated "approximately" (rounding mode, sign handling) differs from the reference.
func c08Dataset() Dataset {
	d := faultDataset()
	// scraped off the evaluation grid: a sample's own timestamp differs from the step's
	for si := range d.Series {
		shift := int64(si%3) * 4_000
		for k := range d.Series[si].Samples {
			d.Series[si].Samples[k].T -= shift
		}
	}
	vals := []float64{-3.5, -2.5, -0.5, 0.5, 2.5, -1.25, 7.5, -10, 0, 3}
	for si := range d.Series {
		if d.Series[si].Labels["__name__"] != "m1" {
			continue
		}
		for k := range d.Series[si].Samples {
			d.Series[si].Samples[k].V = vals[(k+si)%len(vals)]
		}
	}
	return d
}

func counterValues(reg *prometheus.Registry) map[string]float64 {
	out := map[string]float64{}
	mfs, _ := reg.Gather()
	for _, mf := range mfs {
		if mf.GetName() != "promql_engine_queries_total" {
			continue
		}
		for _, m := range mf.GetMetric() {
			out[labelOf(m)] = m.GetCounter().GetValue()
		}
	}
	return out
}

func labelOf(m *dto.Metric) string {
	for _, l := range m.GetLabel() {
		if l.GetName() == "fallback" {
			return l.GetValue()
		}
	}
	return ""
}

func isUnsupportedErr(err error) bool {
	return errors.Is(err, parse.ErrNotSupportedExpr) || errors.Is(err, parse.ErrNotImplemented)
}

// usesAvoided: the query contains a construct of an open known finding.
func usesAvoided(q string) bool {
	e, err := parser.ParseExpr(q)
	if err != nil {
		return false
	}
	hit := false
	parser.Inspect(e, func(n parser.Node, _ []parser.Node) error {
		switch x := n.(type) {
		case *parser.Call:
			if GlobalAvoid["fn:"+x.Func.Name] {
				hit = true
			}
		case *parser.VectorSelector:
			if x.Name == "" && GlobalAvoid["nameless-selector"] {
				hit = true
			}
		}
		return nil
	})
	return hit
}

func (c08Prop) Check(c Case) Outcome {
	var o Outcome
	ctx := context.Background()
	empty := Dataset{}
	ref := RunReference(ctx, NewStore(c.Dataset, StoreOpts{}), c.Engine, c.Query, c.Window)
	o.NonTrivial = !ref.CreateErr
	o.Tag("q:" + shapeOf(c.Query))

	// fallback off: decision from the expression alone, self-identifying error
	cfgOff := c.Engine
	cfgOff.Fallback = false
	var decisions []bool
	var offRes ExecOut
	for di, d := range []Dataset{c.Dataset, empty} {
		e := engine.New(engOpts(cfgOff, nil))
		qry, err := NewQuery(e, NewStore(d, StoreOpts{}), cfgOff, c.Query, c.Window)
		if err != nil {
			if ref.CreateErr {
				decisions = append(decisions, true) // both reject: not a construct question
				continue
			}
			if !isUnsupportedErr(err) {
				o.Add("reject-not-self-identifying", fmt.Sprintf("fallback disabled: creation fails with an error that is neither ErrNotSupportedExpr nor ErrNotImplemented: %v", err))
				return o
			}
			decisions = append(decisions, false)
			continue
		}
		decisions = append(decisions, true)
		res := qry.Exec(ctx)
		if di == 0 {
			offRes = ExecOut{Res: Canon(res)}
		}
		if res.Err != nil && isUnsupportedErr(res.Err) {
			o.Add("unsupported-at-exec", fmt.Sprintf("fallback disabled: the query was accepted at creation but Exec reports it as unsupported: %v", res.Err))
			return o
		}
		qry.Close()
	}
	if decisions[0] != decisions[1] {
		o.Add("decision-depends-on-data", fmt.Sprintf("fallback disabled: accepted=%v on the full dataset, accepted=%v on the empty one", decisions[0], decisions[1]))
		return o
	}
	supported := decisions[0] && !ref.CreateErr
	if supported {
		o.Count("native_constructs", 1)
	} else {
		o.Count("fallback_constructs", 1)
	}
	known := usesAvoided(c.Query) && c.Finding == ""

	// fallback on: accepted iff the reference accepts, equal results, counter by path
	cfgOn := c.Engine
	cfgOn.Fallback = true
	reg := prometheus.NewRegistry()
	e := engine.New(engOpts(cfgOn, reg))
	before := counterValues(reg)
	qry, err := NewQuery(e, NewStore(c.Dataset, StoreOpts{}), cfgOn, c.Query, c.Window)
	after := counterValues(reg)
	if (err != nil) != ref.CreateErr {
		o.Add("acceptance-mismatch", fmt.Sprintf("fallback enabled: creation error %v, reference creation error %v", err, ref.Res.Err))
		return o
	}
	dTrue, dFalse := after["true"]-before["true"], after["false"]-before["false"]
	if err == nil {
		wantTrue, wantFalse := 0.0, 1.0
		if !decisions[0] {
			wantTrue, wantFalse = 1.0, 0.0
		}
		if dTrue != wantTrue || dFalse != wantFalse {
			o.Add("counter", fmt.Sprintf("query counter moved by fallback=true:%v fallback=false:%v; the query is natively supported=%v", dTrue, dFalse, decisions[0]))
		}
		res := Canon(qry.Exec(ctx))
		qry.Close()
		if final := counterValues(reg); final["true"] != after["true"] || final["false"] != after["false"] {
			o.Add("counter", fmt.Sprintf("the query counter moved again after creation (Exec/Close): fallback=true %v -> %v, fallback=false %v -> %v", after["true"], final["true"], after["false"], final["false"]))
		}
		if res.Err != nil && isUnsupportedErr(res.Err) {
			o.Add("unsupported-at-exec", fmt.Sprintf("fallback enabled: Exec surfaces an unsupported/not-implemented error: %v", res.Err))
			return o
		}
		if known {
			o.Count("known_region_avoided_construct", 1)
			return o
		}
		if d := Compare(res, ref.Res); d != nil {
			var tmp Outcome
			if Excuse(c, res, ref.Res, d, &tmp) == "" && !InKnownClass(c, &o) {
				o.Add("fallback-on:"+d.Rule, fmt.Sprintf("fallback enabled (native=%v): %s\n  engine:    %s\n  reference: %s", decisions[0], d.Detail, res, ref.Res))
				return o
			}
		}
		if decisions[0] {
			if d := Compare(offRes.Res, res); d != nil {
				var tmp Outcome
				if Excuse(c, offRes.Res, res, d, &tmp) == "" && !InKnownClass(c, &o) {
					o.Add("fallback-off-differs", fmt.Sprintf("a supported query answers differently with fallback disabled: %s", d.Detail))
				}
			}
		}
	} else if dTrue+dFalse > 1 {
		o.Add("counter", fmt.Sprintf("rejected query moved the counter by %v", dTrue+dFalse))
	}
	// A distributed engine with the fallback enabled over remote engines that have it disabled: an
	// unsupported construct in a pushed-down part must still be recognised when the query is created
	// (the remote engine rejects it then), and answered like the reference.
	if err == nil && !known && len(o.Violations) == 0 && c.Index%5 == 0 {
		strict := c.Engine
		strict.Fallback = false
		var remotes []api.RemoteEngine
		for _, d := range splitDataset(c.Dataset, 2) {
			remotes = append(remotes, engine.NewLocalEngine(engOpts(strict, nil), NewStore(d, StoreOpts{})))
		}
		de := engine.NewDistributedEngine(engOpts(cfgOn, nil), api.NewStaticEndpoints(remotes))
		dq, derr := NewQuery(de, NewStore(c.Dataset, StoreOpts{}), cfgOn, c.Query, c.Window)
		o.Count("distributed_strict_remote_cases", 1)
		if derr != nil {
			o.Add("distributed:acceptance-mismatch", fmt.Sprintf("distributed engine (fallback on, remotes strict): creation fails with %v, the reference accepts the query", derr))
			return o
		}
		dres := Canon(dq.Exec(ctx))
		dq.Close()
		if dres.Err != nil && isUnsupportedErr(dres.Err) {
			o.Add("distributed:unsupported-at-exec", fmt.Sprintf("distributed engine (fallback on, remotes strict): Exec surfaces an unsupported/not-implemented error: %v", dres.Err))
			return o
		}
		if d := Compare(dres, ref.Res); d != nil {
			var tmp Outcome
			if Excuse(c, dres, ref.Res, d, &tmp) == "" {
				o.Add("distributed:"+d.Rule, fmt.Sprintf("distributed engine (fallback on, remotes strict): %s\n  engine:    %s\n  reference: %s", d.Detail, dres, ref.Res))
			}
		}
	}
	return o
}

func init() {
	Register(c19Prop{gen: &diffProp{id: "C01", focus: "", depth: 4, extreme: true}})
	Register(c20Prop{})
	Register(c08Prop{})
}
