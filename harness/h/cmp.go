package h

import (
	"fmt"
	"math"
	"sort"

	"github.com/prometheus/prometheus/model/labels"
	"github.com/prometheus/prometheus/model/value"
)

// Diff is one disagreement between two results.
type Diff struct {
	Rule   string // type | error-mismatch | missing-series | extra-series | timestamps | value | stale
	Detail string
}

// ValEq is the value equality of DESIGN §1.3.
func ValEq(a, b float64) bool {
	sa, sb := value.IsStaleNaN(a), value.IsStaleNaN(b)
	if sa || sb {
		return sa && sb
	}
	if math.IsNaN(a) || math.IsNaN(b) {
		return math.IsNaN(a) && math.IsNaN(b)
	}
	if math.IsInf(a, 0) || math.IsInf(b, 0) {
		return a == b
	}
	if a == b {
		return true
	}
	m := math.Max(1, math.Max(math.Abs(a), math.Abs(b)))
	return math.Abs(a-b) <= valTol*m
}

// valTol is the relative tolerance of ValEq. It is only ever widened by CompareLoose, for the
// duration of one comparison of an ill-conditioned query (single-threaded use).
var valTol = 1e-9

// CompareLoose is Compare with the relative tolerance widened to tol.
func CompareLoose(got, want Result, tol float64) *Diff {
	old := valTol
	valTol = tol
	defer func() { valTol = old }()
	return Compare(got, want)
}

func lkey(l labels.Labels) string {
	// semantic key: sorted, empty-valued labels dropped (nil and {} coincide)
	c := make(labels.Labels, 0, len(l))
	for _, x := range l {
		if x.Value != "" {
			c = append(c, x)
		}
	}
	sort.Sort(c)
	return c.String()
}

// Compare returns the first disagreement between got (engine) and want (oracle), or nil.
// Error messages are not compared, error presence is.
func Compare(got, want Result) *Diff {
	if (got.Err != nil) != (want.Err != nil) {
		return &Diff{"error-mismatch", fmt.Sprintf("got err=%v, want err=%v", got.Err, want.Err)}
	}
	if got.Err != nil {
		return nil
	}
	if got.Type != want.Type {
		return &Diff{"type", fmt.Sprintf("got %s want %s", got.Type, want.Type)}
	}
	gm := map[string][]RSeries{}
	for _, s := range got.Series {
		gm[lkey(s.Labels)] = append(gm[lkey(s.Labels)], s)
	}
	wm := map[string][]RSeries{}
	for _, s := range want.Series {
		wm[lkey(s.Labels)] = append(wm[lkey(s.Labels)], s)
	}
	keys := make([]string, 0, len(wm))
	for k := range wm {
		keys = append(keys, k)
	}
	sort.Strings(keys)
	for _, k := range keys {
		g, ok := gm[k]
		if !ok {
			return &Diff{"missing-series", fmt.Sprintf("series %s absent; want %v", k, ptsStr(wm[k][0].Points))}
		}
		if len(g) != len(wm[k]) {
			return &Diff{"duplicate-series", fmt.Sprintf("series %s: got %d copies want %d", k, len(g), len(wm[k]))}
		}
		for i := range g {
			if d := cmpPoints(k, g[i].Points, wm[k][i].Points); d != nil {
				return d
			}
		}
	}
	gkeys := make([]string, 0, len(gm))
	for k := range gm {
		gkeys = append(gkeys, k)
	}
	sort.Strings(gkeys)
	for _, k := range gkeys {
		if _, ok := wm[k]; !ok {
			return &Diff{"extra-series", fmt.Sprintf("series %s not expected; got %v", k, ptsStr(gm[k][0].Points))}
		}
	}
	return nil
}

func ptsStr(p []RPoint) string {
	s := ""
	for i, x := range p {
		if i >= 8 {
			s += fmt.Sprintf(" …(%d)", len(p))
			break
		}
		s += fmt.Sprintf(" %s@%d", fmtF(x.V), x.T)
	}
	return s
}

func cmpPoints(k string, g, w []RPoint) *Diff {
	i, j := 0, 0
	for i < len(g) || j < len(w) {
		switch {
		case j >= len(w) || (i < len(g) && g[i].T < w[j].T):
			return &Diff{"extra-point", fmt.Sprintf("series %s: unexpected point %s@%d (got%s | want%s)", k, fmtF(g[i].V), g[i].T, ptsStr(g), ptsStr(w))}
		case i >= len(g) || w[j].T < g[i].T:
			return &Diff{"missing-point", fmt.Sprintf("series %s: missing point %s@%d (got%s | want%s)", k, fmtF(w[j].V), w[j].T, ptsStr(g), ptsStr(w))}
		default:
			if !ValEq(g[i].V, w[j].V) {
				return &Diff{"value", fmt.Sprintf("series %s @%d: got %s want %s", k, g[i].T, fmtF(g[i].V), fmtF(w[j].V))}
			}
			i++
			j++
		}
	}
	return nil
}

// WellFormed checks the C19 rules on a successful result. exprType is the PromQL type of the
// expression ("vector", "scalar", "matrix", "string").
func WellFormed(r Result, w Window, exprType string) []Diff {
	var out []Diff
	if r.Err != nil {
		return nil
	}
	add := func(rule, f string, a ...any) { out = append(out, Diff{rule, fmt.Sprintf(f, a...)}) }
	if w.Instant() {
		if r.Type != exprType {
			add("wf-type", "instant result type %s, expression type %s", r.Type, exprType)
		}
	} else if r.Type != "matrix" {
		add("wf-type", "range result type %s", r.Type)
	}
	// label sets
	seen := map[string]bool{}
	for _, s := range r.Series {
		for i, l := range s.Labels {
			if l.Value == "" {
				add("wf-empty-label", "label %q empty in %s", l.Name, s.Labels)
			}
			if i > 0 && s.Labels[i-1].Name == l.Name {
				add("wf-repeated-label", "label %q repeated in %s", l.Name, s.Labels)
			} else if i > 0 && s.Labels[i-1].Name > l.Name {
				add("wf-unsorted-labels", "labels unsorted in %s", s.Labels)
			}
		}
		k := s.Labels.String()
		if seen[k] && r.Type != "scalar" {
			add("wf-duplicate-series", "label set %s occurs twice", k)
		}
		seen[k] = true
		if len(s.Points) == 0 {
			add("wf-empty-series", "series %s has no points", k)
		}
		for i, p := range s.Points {
			if value.IsStaleNaN(p.V) {
				add("wf-stale", "staleness marker in %s @%d", k, p.T)
			}
			if w.Instant() {
				if r.Type != "matrix" && p.T != w.StartMs {
					add("wf-timestamp", "instant sample of %s stamped %d, eval time %d", k, p.T, w.StartMs)
				}
				continue
			}
			if i > 0 && p.T <= s.Points[i-1].T {
				add("wf-timestamp", "timestamps not strictly increasing in %s: %d after %d", k, p.T, s.Points[i-1].T)
			}
			if p.T < w.StartMs || p.T > w.EndMs || (p.T-w.StartMs)%w.StepMs != 0 {
				add("wf-timestamp", "point of %s at %d is off the grid [%d,%d]/%d", k, p.T, w.StartMs, w.EndMs, w.StepMs)
			}
		}
	}
	if r.Type == "matrix" && !w.Instant() {
		for i := 1; i < len(r.RawOrder); i++ {
			if labels.Compare(r.RawOrder[i-1], r.RawOrder[i]) > 0 {
				add("wf-unsorted-matrix", "matrix not sorted: %s before %s", r.RawOrder[i-1], r.RawOrder[i])
				break
			}
		}
	}
	return out
}
