package h

import "time"

var t0 = time.Now()

func nanotime() int64 { return int64(time.Since(t0)) }
