package h

import (
	"sync"
	"sync/atomic"

	"github.com/thanos-community/promql-engine/verifhook"
)

var (
	perturbMu sync.Mutex
	// HookVisits counts visits of the named yield points (hook 2) while a perturbation is installed.
	HookVisits atomic.Int64
)

// WithPerturbation runs f with yields/sleeps injected at the engine's goroutine hand-off points.
func WithPerturbation(seed uint64, f func()) {
	perturbMu.Lock()
	defer perturbMu.Unlock()
	var n atomic.Uint64
	verifhook.Callback = func(site string, id int) {
		k := n.Add(1)
		HookVisits.Add(1)
		perturbDecide(seed, k, uint64(len(site))*131+uint64(id))
	}
	defer func() { verifhook.Callback = nil }()
	f()
}

// WithPurePerturbation is the race-pure variant: the callback shares no state between goroutines.
func WithPurePerturbation(seed uint64, f func()) {
	perturbMu.Lock()
	defer perturbMu.Unlock()
	verifhook.Callback = func(site string, id int) {
		perturbDecide(seed, uint64(nanotime()), uint64(len(site))*131+uint64(id))
	}
	defer func() { verifhook.Callback = nil }()
	f()
}
