package h

import (
	"sync"
	"sync/atomic"
	"time"

	"github.com/thanos-community/promql-engine/verifhook"
)

var (
	perturbMu sync.Mutex
	// HookVisits counts visits of the named yield points (hook 2) while a perturbation is installed.
	HookVisits atomic.Int64
)

// WithPerturbation runs f with yields/sleeps injected at the engine's goroutine hand-off points.
func WithPerturbation(seed uint64, f func()) {
	perturbMu.Lock()
	defer perturbMu.Unlock()
	var n atomic.Uint64
	verifhook.Callback = func(site string, id int) {
		k := n.Add(1)
		HookVisits.Add(1)
		perturbDecide(seed, k, uint64(len(site))*131+uint64(id))
	}
	defer func() {
		// goroutines of the query may still pass hook points for a moment after Exec returned
		EngineGoroutines(2 * time.Second)
		verifhook.Callback = nil
	}()
	f()
}

var pureOnce sync.Once

// InstallPurePerturbation installs, once per process and for good, the race-pure hook callback:
// it shares no state between goroutines (decision = hash of site, id and the clock's low bits) and
// is never uninstalled, so that the monitor itself adds no write for the detector to see.
func InstallPurePerturbation() {
	pureOnce.Do(func() {
		verifhook.Callback = func(site string, id int) {
			perturbDecide(0x9e3779b9, uint64(nanotime()), uint64(len(site))*131+uint64(id))
		}
	})
}
