package h

import (
	"bufio"
	"os"
	"strings"
)

// Finding is one line of KNOWN_FINDINGS.txt.
type Finding struct {
	Fixed     bool
	ID        string
	Props     []string
	Rule      string
	Avoid     []string
	Witnesses []string
	Text      string
}

// LoadFindings parses the committed known-findings file. It is never written at run time.
func LoadFindings(path string) ([]Finding, error) {
	f, err := os.Open(path)
	if err != nil {
		if os.IsNotExist(err) {
			return nil, nil
		}
		return nil, err
	}
	defer f.Close()
	var out []Finding
	sc := bufio.NewScanner(f)
	sc.Buffer(make([]byte, 1<<20), 1<<20)
	for sc.Scan() {
		line := strings.TrimSpace(sc.Text())
		if line == "" || strings.HasPrefix(line, "#") {
			continue
		}
		var fd Finding
		switch {
		case strings.HasPrefix(line, "finding:"):
			line = strings.TrimPrefix(line, "finding:")
		case strings.HasPrefix(line, "fixed:"):
			fd.Fixed = true
			line = strings.TrimPrefix(line, "fixed:")
		default:
			continue
		}
		head, text, _ := strings.Cut(line, "::")
		fd.Text = strings.TrimSpace(text)
		for _, tok := range strings.Fields(head) {
			k, v, ok := strings.Cut(tok, "=")
			if !ok {
				continue
			}
			switch k {
			case "id":
				fd.ID = v
			case "property":
				fd.Props = strings.Split(v, ",")
			case "rule":
				fd.Rule = v
			case "avoid":
				fd.Avoid = append(fd.Avoid, strings.Split(v, ",")...)
			case "witness":
				fd.Witnesses = append(fd.Witnesses, strings.Split(v, ",")...)
			}
		}
		out = append(out, fd)
	}
	return out, sc.Err()
}

// AvoidSet is the union of avoid= features of all open findings.
func AvoidSet(fs []Finding) map[string]bool {
	m := map[string]bool{}
	for _, f := range fs {
		if f.Fixed {
			continue
		}
		for _, a := range f.Avoid {
			m[a] = true
		}
	}
	return m
}

// GlobalAvoid is installed by the worker at start-up from KNOWN_FINDINGS.txt.
var GlobalAvoid = map[string]bool{}

func mergeAvoid(extra ...string) map[string]bool {
	m := map[string]bool{}
	for k, v := range GlobalAvoid {
		m[k] = v
	}
	for _, e := range extra {
		m[e] = true
	}
	return m
}
