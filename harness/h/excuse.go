package h

import (
	"context"
	"math"

	"github.com/prometheus/prometheus/model/labels"
	"github.com/prometheus/prometheus/promql/parser"
)

// OpenFindings is installed by the worker from KNOWN_FINDINGS.txt (ids of open findings).
var OpenFindings = map[string]bool{}

// Excuse decides whether a disagreement with the oracle must not be judged:
//   - "tie": the query selects k series by value (topk/bottomk) and its argument has equal
//     values at some step. The reference engine itself breaks such ties by Go map iteration
//     order in range queries, so no choice among tied series is wrong -> inconclusive.
//   - "knife-edge": the query contains a discontinuity (comparison, %, floor, ceil) whose inexactly
//     computed operands sit on the discontinuity at some step: the outcome is decided by rounding.
//   - "known:<id>": the disagreement lies in the input class of an OPEN known finding (only
//     consulted for generated cases, never for a committed witness).
//
// Everything else is a violation. The returned string is empty when the diff must be reported.
func Excuse(c Case, eng, ref Result, d *Diff, o *Outcome) string {
	expr, err := parser.ParseExpr(c.Query)
	if err != nil {
		return ""
	}
	if d.Rule != "type" { // a different choice among tied series can also surface as an error further up
		tie := false
		parser.Inspect(expr, func(n parser.Node, _ []parser.Node) error {
			if tie {
				return nil
			}
			ag, ok := n.(*parser.AggregateExpr)
			if !ok || (ag.Op != parser.TOPK && ag.Op != parser.BOTTOMK) {
				return nil
			}
			arg := RunReference(context.Background(), NewStore(c.Dataset, StoreOpts{}), c.Engine, ag.Expr.String(), c.Window)
			if arg.Res.Err != nil {
				return nil
			}
			byT := map[int64][]float64{}
			for _, s := range arg.Res.Series {
				for _, p := range s.Points {
					for _, v := range byT[p.T] {
						if ValEq(v, p.V) || (v != v && p.V != p.V) {
							tie = true
						}
					}
					byT[p.T] = append(byT[p.T], p.V)
				}
			}
			return nil
		})
		if tie {
			o.Inconclusive = "topk/bottomk tie: the reference engine's choice among equal values is not deterministic"
			o.Count("inconclusive_tie", 1)
			return "tie"
		}
	}
	if d.Rule == "value" && zeroSignTie(c, expr) {
		o.Inconclusive = "min/max over +0 and -0: which of the two equal values is kept depends on the order of the operand's samples"
		o.Count("inconclusive_zero_sign_tie", 1)
		return "tie:zero-sign"
	}
	if d.Rule == "value" && illConditioned(expr) && CompareLoose(eng, ref, 1e-6) == nil {
		// e.g. tan(stdvar(x)) near a pole: a last-bit difference of the inexactly computed operand is
		// amplified beyond the comparison tolerance. Real defects are not this small.
		o.Inconclusive = "ill-conditioned function of an inexactly computed operand: results agree within 1e-6"
		o.Count("inconclusive_ill_conditioned", 1)
		return "ill-conditioned"
	}
	if d.Rule != "type" && knifeEdge(c, expr) {
		o.Inconclusive = "rounding at a comparison threshold: operands of a comparison agree within 1e-9"
		o.Count("inconclusive_knife_edge", 1)
		return "knife-edge"
	}
	return ""
}

// zeroSignTie: some min/max (or topk/bottomk) in the query has, at some step, both +0 and -0 among its
// operand's values. Both engines keep the first of equal values; which one comes first is the order of
// the operand's samples, which nothing specifies (a join emits in hash order). The sign only shows
// through a later division.
func zeroSignTie(c Case, expr parser.Expr) bool {
	hit := false
	parser.Inspect(expr, func(n parser.Node, _ []parser.Node) error {
		ag, ok := n.(*parser.AggregateExpr)
		if hit || !ok || (ag.Op != parser.MIN && ag.Op != parser.MAX && ag.Op != parser.TOPK && ag.Op != parser.BOTTOMK) {
			return nil
		}
		arg := RunReference(context.Background(), NewStore(c.Dataset, StoreOpts{}), c.Engine, ag.Expr.String(), c.Window)
		if arg.Res.Err != nil {
			return nil
		}
		pos, neg := map[int64]bool{}, map[int64]bool{}
		for _, s := range arg.Res.Series {
			for _, p := range s.Points {
				if p.V == 0 {
					if math.Signbit(p.V) {
						neg[p.T] = true
					} else {
						pos[p.T] = true
					}
				}
			}
		}
		for t := range pos {
			if neg[t] {
				hit = true
			}
		}
		return nil
	})
	return hit
}

// illConditioned: the query applies a function that can amplify relative error without bound (tan
// near its poles, exp/sinh/cosh/^ of large arguments, logarithms near 1, inverse functions near the
// ends of their domain) to an operand whose value is computed inexactly.
func illConditioned(expr parser.Expr) bool {
	found := false
	inexact := func(e parser.Expr) bool {
		if inexact(e) {
			return true
		}
		sum := false // the order of a floating-point summation follows the sharding
		parser.Inspect(e, func(n parser.Node, _ []parser.Node) error {
			if ag, ok := n.(*parser.AggregateExpr); ok && ag.Op == parser.SUM {
				sum = true
			}
			return nil
		})
		return sum
	}
	parser.Inspect(expr, func(n parser.Node, _ []parser.Node) error {
		switch x := n.(type) {
		case *parser.Call:
			switch x.Func.Name {
			case "tan", "exp", "sinh", "cosh", "tanh", "ln", "log2", "log10", "asin", "acos", "acosh", "atanh", "sin", "cos":
				if len(x.Args) == 1 && inexact(x.Args[0]) {
					found = true
				}
			}
		case *parser.BinaryExpr:
			if x.Op == parser.POW && (inexact(x.LHS) || inexact(x.RHS)) {
				found = true
			}
		}
		return nil
	})
	return found
}

// InKnownClass reports whether a generated case (never a committed witness) lies in the input
// class of an OPEN known finding whose defect cannot be avoided by the generator alone.
func InKnownClass(c Case, o *Outcome) bool {
	if c.Finding != "" {
		return false
	}
	if OpenFindings["F04"] && StaticJoinAmbiguous(c, nil) {
		o.Count("known_region_F04", 1)
		return true
	}
	return false
}

// StaticJoinAmbiguous is the input-class predicate of known finding F04. The engine joins the
// operands' series lists once per query instead of the samples of each step. That is only
// equivalent to the reference's per-step matching when, for every vector-vector operator,
//
//	(i)   no match group has two series on the side that must be unique (the "one" side;
//	      both sides for one-to-one), and
//	(ii)  with group_left/right, no two many-side series of a group map to the same result labels.
//
// The series lists are the ones the operand operators themselves declare (observed through the
// operator-boundary hook), including series that never have a sample in the window.
func StaticJoinAmbiguous(c Case, _ parser.Expr) bool {
	for _, js := range PlanJoinSides(c) {
		vm := js.Expr.VectorMatching
		if vm == nil || js.Expr.Op.IsSetOperator() {
			continue
		}
		sig := func(l labels.Labels) string {
			if vm.On {
				return l.MatchLabels(true, vm.MatchingLabels...).String()
			}
			return l.MatchLabels(false, append([]string{"__name__"}, vm.MatchingLabels...)...).String()
		}
		dup := func(ls []labels.Labels) bool {
			seen := map[string]bool{}
			for _, l := range ls {
				k := sig(l)
				if seen[k] {
					return true
				}
				seen[k] = true
			}
			return false
		}
		one, many := js.RHS, js.LHS
		if vm.Card == parser.CardOneToMany {
			one, many = js.LHS, js.RHS
		}
		if dup(one) {
			return true
		}
		if vm.Card == parser.CardOneToOne {
			if dup(many) {
				return true
			}
			continue
		}
		// (ii) many-side series of one group colliding once name and included labels are gone
		seen := map[string]bool{}
		for _, l := range many {
			rest := l.MatchLabels(false, append([]string{"__name__"}, vm.Include...)...).String()
			k := sig(l) + "|" + rest
			if seen[k] {
				return true
			}
			seen[k] = true
		}
	}
	return false
}

var exactFuncs = map[string]bool{"abs": true, "ceil": true, "floor": true, "min_over_time": true, "max_over_time": true,
	"count_over_time": true, "last_over_time": true, "present_over_time": true, "changes": true, "resets": true, "vector": true, "scalar": true, "time": true}

// inexact reports whether evaluating e involves floating-point rounding that may legitimately
// differ between two correct implementations (summation order, Kahan vs plain, libm).
func inexact(e parser.Expr) bool {
	r := false
	parser.Inspect(e, func(n parser.Node, _ []parser.Node) error {
		switch x := n.(type) {
		case *parser.Call:
			if !exactFuncs[x.Func.Name] {
				r = true
			}
		case *parser.AggregateExpr:
			switch x.Op {
			case parser.AVG, parser.STDDEV, parser.STDVAR, parser.QUANTILE:
				r = true
			}
		case *parser.BinaryExpr:
			switch x.Op {
			case parser.DIV, parser.POW, parser.MOD, parser.ATAN2:
				r = true
			}
		}
		return nil
	})
	return r
}

// knifeEdge: some comparison in the query has, at some step, a left and a right operand value
// that agree within the comparison tolerance while being different, or while being computed
// inexactly. The outcome of such a comparison is decided by rounding.
func knifeEdge(c Case, expr parser.Expr) bool {
	hit := false
	parser.Inspect(expr, func(n parser.Node, _ []parser.Node) error {
		if hit {
			return nil
		}
		if call, ok := n.(*parser.Call); ok && (call.Func.Name == "floor" || call.Func.Name == "ceil") && len(call.Args) == 1 && inexact(call.Args[0]) {
			// a step function of an inexactly computed value that lies on a step
			a := RunReference(context.Background(), NewStore(c.Dataset, StoreOpts{}), c.Engine, call.Args[0].String(), c.Window)
			if a.Res.Err == nil {
				for _, s := range a.Res.Series {
					for _, p := range s.Points {
						if r := math.Round(p.V); p.V == p.V && !math.IsInf(p.V, 0) && math.Abs(p.V-r) <= 1e-9*math.Max(1, math.Abs(p.V)) {
							hit = true
						}
					}
				}
			}
			return nil
		}
		b, ok := n.(*parser.BinaryExpr)
		if !ok {
			return nil
		}
		if b.Op == parser.MOD && (inexact(b.LHS) || inexact(b.RHS)) {
			// x % y jumps where x/y crosses an integer
			l := RunReference(context.Background(), NewStore(c.Dataset, StoreOpts{}), c.Engine, b.LHS.String(), c.Window)
			r := RunReference(context.Background(), NewStore(c.Dataset, StoreOpts{}), c.Engine, b.RHS.String(), c.Window)
			if l.Res.Err == nil && r.Res.Err == nil {
				byT := map[int64][]float64{}
				for _, s := range l.Res.Series {
					for _, p := range s.Points {
						byT[p.T] = append(byT[p.T], p.V)
					}
				}
				for _, s := range r.Res.Series {
					for _, p := range s.Points {
						for _, v := range byT[p.T] {
							q := v / p.V
							if q == q && !math.IsInf(q, 0) && math.Abs(q-math.Round(q)) <= 1e-9*math.Max(1, math.Abs(q)) {
								hit = true
							}
						}
					}
				}
			}
			return nil
		}
		if !b.Op.IsComparisonOperator() {
			return nil
		}
		l := RunReference(context.Background(), NewStore(c.Dataset, StoreOpts{}), c.Engine, b.LHS.String(), c.Window)
		r := RunReference(context.Background(), NewStore(c.Dataset, StoreOpts{}), c.Engine, b.RHS.String(), c.Window)
		if l.Res.Err != nil || r.Res.Err != nil {
			return nil
		}
		soft := inexact(b.LHS) || inexact(b.RHS)
		byT := map[int64][]float64{}
		for _, s := range l.Res.Series {
			for _, p := range s.Points {
				byT[p.T] = append(byT[p.T], p.V)
			}
		}
		for _, s := range r.Res.Series {
			for _, p := range s.Points {
				for _, v := range byT[p.T] {
					if ValEq(v, p.V) && (v != p.V || soft) && v == v {
						hit = true
					}
				}
			}
		}
		return nil
	})
	return hit
}
