//go:build !race

package h

const raceBuild = false
