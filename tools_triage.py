#!/usr/bin/env python3
# summarise replays/<prop>/*.json by (rule, abstracted shrunk query)
import json,glob,sys,re,collections
prop=sys.argv[1]
groups=collections.OrderedDict()
for f in sorted(glob.glob(f'/verif/replays/{prop}/*.json')):
    m=json.load(open(f))
    q=m.get('query','')
    r=m['observed']['rule']
    shape=re.sub(r'"[^"]*"','""',q); shape=re.sub(r'\d+(\.\d+)?(ms|s|m)?','N',shape)
    groups.setdefault((r,shape),[]).append(f)
items=sorted(groups.items(), key=lambda kv:-len(kv[1]))
for (r,shape),fs in items[:int(sys.argv[2]) if len(sys.argv)>2 else 40]:
    m=json.load(open(fs[0]))
    print(f'== {len(fs):4d} {r:18s} {shape}')
    print('     ',fs[0].split('/')[-1],'q=',m.get('query'),'w=',m.get('window'),'eng=',m.get('engine'))
    d=m['observed'].get('detail') or m['observed'].get('stderr','')[:500]
    print('     ',d[:700].replace('\n','\n      '))
    print('      data:',[(s['labels'],(s.get('samples') or [])[:5]) for s in ((m.get('dataset') or {}).get('series') or [])][:4])
