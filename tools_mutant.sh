#!/bin/bash
# tools_mutant.sh <patch.diff> <Cxx> [<Cyy> ...] : run quick checks against a scratch copy of /repo with the patch applied
# (VERIF_REPO / VERIF_OUT keep /repo, evidence/ and replays/ untouched). Prints one line per check.
set -u
patch=$(readlink -f "$1"); shift
tag=$(basename "$patch" .diff)-$$
S=/var/tmp/mutrepo-$tag; O=/var/tmp/mutout-$tag
rm -rf "$S" "$O"; mkdir -p "$S"
rsync -a --exclude .git /repo/ "$S"/
( cd "$S" && git init -q . && git add -A >/dev/null 2>&1 && git -c user.email=a@b -c user.name=x commit -qm base >/dev/null && git apply "$patch" ) || { echo "PATCH-FAILED $patch"; rm -rf "$S" "$O"; exit 3; }
cd /verif
for p in "$@"; do
  out=$(VERIF_REPO="$S" VERIF_OUT="$O" ./bin/vdriver run $p ${VERIF_SEED:+-seed $VERIF_SEED} 2>&1); rc=$?
  echo "MUTANT $(basename $patch) $p rc=$rc $(echo "$out" | grep -c '^VIOLATION') violations; $(echo "$out" | grep -E '^  rule=' | sed 's/ query=.*//' | sort | uniq -c | sort -rn | head -3 | tr '\n' ';')"
done
rm -rf "$S" "$O"
